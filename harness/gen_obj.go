package main

import (
	"bytes"
	"strconv"
	"encoding/hex"
	"fmt"
	"github.com/polydawn/refmt"
	"reflect"
	"strings"
)

func emitDefs() {
	for _, l := range zooDefs() {
		emit("%s", l)
	}
}

func genMarshal(tier string, seed uint64) {
	emitDefs()
	r := &rng{s: seed}
	n := 40
	if tier == "thorough" {
		n = 6000
	}
	for _, a := range zooAtlases() {
		for _, t := range rootTypes() {
			k := t.Kind()
			if k == reflect.Func || k == reflect.Chan || k == reflect.Complex64 {
				emit("marshal %d %d 0 n", a.id, tid(t))
				continue
			}
			cnt := n
			if k == reflect.Bool {
				cnt = 4
			}
			for i := 0; i < cnt; i++ {
				v := genValue(r, t, genOpts{depth: 1 + r.intn(4)})
				vp := r.intn(2)
				emit("marshal %d %d %d %s", a.id, tid(t), vp, v)
				if i%4 == 0 {
					// the same through the STATEFUL model of the marshaller (slab rows, machine stack), started from an
					// instance that abandoned a run
					emit("marshalm %d %d %d %s", a.id, tid(t), vp, v)
				}
			}
		}
	}
	// transforms whose serial type needs the same slab row again (chained transforms, a pointer to a type whose transform
	// yields a pointer): the library refuses them, it neither panics nor recurses without bound; the neighbours that
	// can be served are served
	cht, chu, chw := tid(reflect.TypeOf(ChT{})), tid(reflect.TypeOf(ChU{})), tid(reflect.TypeOf(ChW{}))
	pchw, pchu, slu := tid(reflect.TypeOf((*ChW)(nil))), tid(reflect.TypeOf((*ChU)(nil))), tid(reflect.TypeOf([]ChU{}))
	for _, vp := range []int{0} {
		for _, c := range []string{fmt.Sprintf("%d %d S(s61)", cht, vp), fmt.Sprintf("%d %d S(s6162)", chu, vp), fmt.Sprintf("%d %d S(s77)", chw, vp),
			fmt.Sprintf("%d %d PS(s77)", pchw, vp), fmt.Sprintf("%d %d n", pchw, vp), fmt.Sprintf("%d %d PS(s)", pchu, vp), fmt.Sprintf("%d %d [S(s61),S(s62)]", slu, vp),
			fmt.Sprintf("%d %d []", slu, vp)} {
			emit("marshalm 90 %s", c)
		}
	}
}

var umAlphabet = []string{"{-1", "{0", "{1", "{2", "}", "[-1", "[0", "[1", "[2", "]", "0", "s", "s78", "s79", "s7a6564", "s6578", "s616c706861", "s6c6567616379",
	"s636972636c65", "s72", "s311f32", "s3432", "x", "x0102", "x01020304", "b0", "b1", "i-1", "i0", "i300", "u0", "u7", "u70000", "f3ff8000000000000",
	"t100.{-1", "t23.s3432", "t24.x0102", "t7.i1", "t100.0"}

func genUnmarshal(tier string, seed uint64) {
	emitDefs()
	r := &rng{s: seed}
	maxLen := 3
	if tier == "thorough" {
		maxLen = 4
	}
	targets := rootTypes()
	// 1. exhaustive token sequences (prefix-pruned on the real unmarshaller) over the alphabet for every target, atlas 2 (tags) and 0
	for _, aid := range []int{2, 0, 4, 3} {
		a := atlases[aid]
		for _, t := range targets {
			k := t.Kind()
			if k == reflect.Func || k == reflect.Chan || k == reflect.Complex64 {
				emit("unmarshal %d %d 0", aid, tid(t))
				continue
			}
			if aid == 0 && k != reflect.Struct && k != reflect.Interface {
				continue
			}
			if aid == 4 && t != reflect.TypeOf(EmbPtr{}) {
				continue
			}
			if aid == 3 && t != reflect.TypeOf(Emb{}) && t != reflect.TypeOf(StrMap{}) {
				continue
			}
			var rec func(prefix []string)
			rec = func(prefix []string) {
				for _, s := range umAlphabet {
					seq := append(append([]string(nil), prefix...), s)
					line := strings.Join(seq, ",")
					emit("unmarshal %d %d %s", aid, tid(t), line)
					if len(seq) >= maxLen {
						continue
					}
					res := opUnmarshal([]string{fmt.Sprint(a.id), fmt.Sprint(tid(t)), line})
					fl := strings.TrimPrefix(strings.Split(res, " ")[0], "I=")
					if len(fl) == len(seq) && strings.HasSuffix(fl, ".") {
						rec(seq)
					}
				}
			}
			rec(nil)
		}
	}
	// 1a. targets whose transform the machinery cannot serve (atlas 90): refused at Bind, whatever the input
	for _, t := range []reflect.Type{reflect.TypeOf(ChT{}), reflect.TypeOf(ChU{}), reflect.TypeOf(ChW{}), reflect.TypeOf((*ChW)(nil)), reflect.TypeOf((*ChU)(nil))} {
		for _, in := range []string{"s61", "0", "[1,s61,]", "{0,}", "i5"} {
			emit("unmarshal 90 %d %s", tid(t), in)
		}
	}
	//     ... and a union whose member is a union: refused at the member's key, served for its plain member; both through
	//     the STATEFUL model of the unmarshaller (which has the code's rows and gets stuck exactly where the code refuses)
	uzo := tid(reflect.TypeOf((*UzOuter)(nil)).Elem())
	for _, in := range []string{"{1,s75,{1,s63,{1,s72,i1,},},}", "{1,s63,{1,s72,i5,},}", "{1,s75,0,}", "{1,s78,0,}", "0", "{0,}", "{1,s75,{0,},}", "{-1,s63,{0,},}"} {
		emit("unmarshalr 90 %d %s", uzo, in)
	}
	for _, in := range []string{"{1,s63,{1,s72,i5,},}", "{1,s78,0,}", "0", "{0,}", "{-1,s63,{0,},}"} {
		emit("unmarshalm 90 %d %s", uzo, in)
	}
	for _, t := range []reflect.Type{reflect.TypeOf(ChT{}), reflect.TypeOf(ChU{}), reflect.TypeOf(ChW{}), reflect.TypeOf((*ChW)(nil)), reflect.TypeOf((*ChU)(nil)), reflect.TypeOf([]ChU{})} {
		for _, in := range []string{"s61", "0", "[1,s61,]", "[0,]", "i5"} {
			emit("unmarshalm 90 %d %s", tid(t), in)
		}
	}
	// 1b. a repeated map key must be refused whatever its length (short, around one machine word of bits, long)
	for _, n := range []int{1, 7, 31, 32, 33, 63, 64, 65, 100, 300, 5000} {
		key := "s" + strings.Repeat("6b", n)
		other := "s" + strings.Repeat("6a", n)
		for _, mt := range []interface{}{map[string]int{}, map[string]interface{}{}, StrMap{}, map[string]*int16{}} {
			t := reflect.TypeOf(mt)
			for _, aid := range []int{1, 3} {
				emit("unmarshal %d %d {-1,%s,i1,%s,i2,}", aid, tid(t), key, key)
				emit("unmarshal %d %d {3,%s,i1,%s,i2,%s,i3,}", aid, tid(t), key, other, key)
				emit("unmarshal %d %d {2,%s,i1,%s,i2,}", aid, tid(t), key, other)
			}
		}
	}
	// 2. renderings the marshaller produces for random values of every target, mutated at token level:
	//    an entry repeated n times, an unknown key inserted, a token deleted / replaced, a declared length changed,
	//    the stream truncated; and the unmutated rendering itself
	nper := 12
	if tier == "thorough" {
		nper = 600
	}
	for _, aid := range []int{1, 2, 3, 4} {
		for _, t := range targets {
			k := t.Kind()
			if k == reflect.Func || k == reflect.Chan || k == reflect.Complex64 {
				continue
			}
			for i := 0; i < nper; i++ {
				vd := genValue(r, t, genOpts{depth: 1 + r.intn(3), roundtrip: true, tagged: aid == 2 || aid == 3, cbor: true})
				res := opMarshal([]string{fmt.Sprint(aid), fmt.Sprint(tid(t)), "0", vd})
				f := strings.TrimPrefix(strings.Split(res, " ")[0], "I=")
				if !strings.HasSuffix(f, "/ok") {
					continue
				}
				toks := strings.Split(strings.TrimSuffix(f, "/ok"), ",")
				if len(toks) > 0 && toks[len(toks)-1] == "" {
					toks = toks[:len(toks)-1]
				}
				if len(toks) == 0 || (len(toks) > 60 && !(t.Kind() == reflect.Struct && len(toks) <= 600)) {
					continue
				}
				emit("unmarshal %d %d %s", aid, tid(t), strings.Join(toks, ","))
				// the same, and its mutations below, also through the stateful model of the unmarshaller
				emit("unmarshalm %d %d %s", aid, tid(t), strings.Join(toks, ","))
				if t.Kind() == reflect.Struct && t.NumField() > 8 && len(toks) <= 600 {
					// wide structs: the same entries rotated and reversed (any order must be taken)
					for rep := 0; rep < 3; rep++ {
						if pt := permuteOuter(toks, rep); pt != nil {
							emit("unmarshal %d %d %s", aid, tid(t), strings.Join(pt, ","))
						}
					}
				}
				if aid == 3 && t == reflect.TypeOf(Emb{}) {
					// the key this mapping declares as IGNORED, with values of every shape, at every entry position
					for _, it := range insertEntries(toks, "s6c6567616379", ignoredValues) {
						emit("unmarshal %d %d %s", aid, tid(t), strings.Join(it, ","))
					}
				}
				for m := 0; m < 4; m++ {
					mt := mutateToks(r, toks)
					if len(mt) > 0 && len(mt) <= 120 {
						emit("unmarshal %d %d %s", aid, tid(t), strings.Join(mt, ","))
						if m == 0 {
							emit("unmarshalm %d %d %s", aid, tid(t), strings.Join(mt, ","))
						}
					}
				}
			}
		}
	}
}

var ignoredValues = [][]string{{"0"}, {"i7"}, {"s6162"}, {"[0", "]"}, {"{0", "}"}, {"[2", "i1", "[-1", "s78", "]", "]"},
	{"{-1", "s6b", "{1", "s6a", "[0", "]", "}", "s6c", "b1", "}"}, {"t9.i3"}, {"x0102"}}

// insertEntries: the outermost map of toks with the entry key=value inserted at every entry boundary, every value in turn
// (the declared length follows)
func insertEntries(toks []string, key string, values [][]string) [][]string {
	if len(toks) < 2 || !strings.HasPrefix(toks[0], "{") {
		return nil
	}
	bounds := []int{1}
	for i := 1; i < len(toks)-1; {
		i = subtreeEnd(toks, i+1)
		bounds = append(bounds, i)
	}
	open := toks[0]
	if n, err := strconv.Atoi(open[1:]); err == nil && n >= 0 {
		open = fmt.Sprintf("{%d", n+1)
	}
	var out [][]string
	for bi, b := range bounds {
		if b > len(toks)-1 {
			continue
		}
		v := values[bi%len(values)]
		for k := 0; k < 2; k++ {
			x := append([]string{open}, toks[1:b]...)
			x = append(append(x, key), v...)
			x = append(x, toks[b:]...)
			out = append(out, x)
			v = values[(bi+3+len(toks))%len(values)]
		}
	}
	return out
}

// permuteOuter: the entries of the outermost map reversed (how=0), rotated by one (1) or by half (2)
func permuteOuter(toks []string, how int) []string {
	if len(toks) < 2 || !strings.HasPrefix(toks[0], "{") {
		return nil
	}
	var entries [][]string
	for i := 1; i < len(toks)-1; {
		ve := subtreeEnd(toks, i+1)
		entries = append(entries, toks[i:ve])
		i = ve
	}
	if len(entries) < 2 {
		return nil
	}
	switch how {
	case 0:
		for i, j := 0, len(entries)-1; i < j; i, j = i+1, j-1 {
			entries[i], entries[j] = entries[j], entries[i]
		}
	case 1:
		entries = append(append([][]string{}, entries[1:]...), entries[0])
	default:
		k := len(entries) / 2
		entries = append(append([][]string{}, entries[k:]...), entries[:k]...)
	}
	res := []string{toks[0]}
	for _, e := range entries {
		res = append(res, e...)
	}
	return append(res, toks[len(toks)-1])
}

// end of the subtree starting at toks[i] (exclusive)
func subtreeEnd(toks []string, i int) int {
	depth := 0
	for j := i; j < len(toks); j++ {
		b := toks[j]
		if k := strings.LastIndex(b, "."); k >= 0 && b[0] == 't' {
			b = b[k+1:]
		}
		switch {
		case strings.HasPrefix(b, "{") || strings.HasPrefix(b, "["):
			depth++
		case b == "}" || b == "]":
			depth--
		}
		if depth <= 0 {
			return j + 1
		}
	}
	return len(toks)
}

func mutateToks(r *rng, toks []string) []string {
	out := append([]string{}, toks...)
	// positions of map opens
	var maps []int
	for i, b := range toks {
		if k := strings.LastIndex(b, "."); k >= 0 && b[0] == 't' {
			b = b[k+1:]
		}
		if strings.HasPrefix(b, "{") {
			maps = append(maps, i)
		}
	}
	unknown := []string{"s6e6f7065", "s", "s78", "i4", "0"}
	switch r.intn(9) {
	case 8: // the entries of a map in another order (rotated or reversed): maps and structs take their entries in any order
		if len(maps) == 0 {
			return nil
		}
		m := maps[r.intn(len(maps))]
		end := subtreeEnd(toks, m)
		if end-1 <= m+1 {
			return nil
		}
		var entries [][]string
		for i := m + 1; i < end-1; {
			ve := subtreeEnd(toks, i+1)
			entries = append(entries, toks[i:ve])
			i = ve
		}
		if len(entries) < 2 {
			return nil
		}
		res := append([]string{}, toks[:m+1]...)
		if r.chance(1, 2) {
			k := 1 + r.intn(len(entries)-1)
			entries = append(append([][]string{}, entries[k:]...), entries[:k]...)
		} else {
			for i, j := 0, len(entries)-1; i < j; i, j = i+1, j-1 {
				entries[i], entries[j] = entries[j], entries[i]
			}
		}
		for _, e := range entries {
			res = append(res, e...)
		}
		return append(res, toks[end-1:]...)
	case 7: // a string token with the case of its letters flipped (or a Unicode case-fold twin: k -> KELVIN SIGN, s -> long s)
		for try := 0; try < 8; try++ {
			i := r.intn(len(out))
			if !strings.HasPrefix(out[i], "s") || len(out[i]) < 3 {
				continue
			}
			raw, err := hex.DecodeString(out[i][1:])
			if err != nil {
				continue
			}
			s := string(raw)
			switch r.intn(3) {
			case 0:
				s = strings.ToUpper(s)
			case 1:
				s = strings.ToUpper(s[:1]) + s[1:]
			default:
				s = strings.NewReplacer("k", "\u212a", "s", "\u017f", "K", "\u212a").Replace(s)
			}
			if s == string(raw) {
				s = strings.ToLower(s)
			}
			out[i] = "s" + hex.EncodeToString([]byte(s))
			return out
		}
		return nil
	case 0, 1: // repeat the first entry of a map n times, then an unknown key (or nothing)
		if len(maps) == 0 {
			return nil
		}
		m := maps[r.intn(len(maps))]
		if m+1 >= len(toks) || toks[m+1] == "}" {
			return append(append(append([]string{}, toks[:m+1]...), unknown[r.intn(len(unknown))], "0"), toks[m+1:]...)
		}
		ve := subtreeEnd(toks, m+2)
		entry := toks[m+1 : ve]
		n := 1 + r.intn(6)
		res := append([]string{}, toks[:m+1]...)
		res[m] = strings.Replace(res[m], res[m][strings.LastIndex(res[m], "{"):], "{-1", 1)
		for i := 0; i < n; i++ {
			res = append(res, entry...)
		}
		if r.chance(2, 3) {
			res = append(res, unknown[r.intn(len(unknown))], "0")
		}
		return append(res, toks[ve:]...)
	case 2: // unknown key inserted at the start of a map
		if len(maps) == 0 {
			return nil
		}
		m := maps[r.intn(len(maps))]
		return append(append(append([]string{}, toks[:m+1]...), unknown[r.intn(len(unknown))], "0"), toks[m+1:]...)
	case 3: // delete a token
		i := r.intn(len(out))
		return append(out[:i], out[i+1:]...)
	case 4: // replace a token by one from the alphabet
		out[r.intn(len(out))] = umAlphabet[r.intn(len(umAlphabet))]
		return out
	case 5: // change a declared length
		for try := 0; try < 6; try++ {
			i := r.intn(len(out))
			b := out[i]
			k := strings.LastIndexAny(b, "{[")
			if k < 0 {
				continue
			}
			out[i] = b[:k+1] + []string{"-1", "0", "1", "2", "3", "7"}[r.intn(6)]
			return out
		}
		return nil
	default: // truncate
		return out[:r.intn(len(out))]
	}
}

func genRemarshal(tier string, seed uint64) {
	emitDefs()
	r := &rng{s: seed}
	n := 12
	if tier == "thorough" {
		n = 2000
	}
	for _, a := range zooAtlases() {
		for _, t := range roundtripTypes(a) {
			for i := 0; i < n; i++ {
				for _, f := range []string{"cbor", "json"} {
					o := genOpts{depth: 1 + r.intn(4), jsonSafe: f == "json", roundtrip: true, tagged: a.id == 2 || a.id == 3, cbor: f == "cbor"}
					emit("remarshal %s %d %d %s", f, a.id, tid(t), genValue(r, t, o))
				}
			}
		}
	}
	taggedNeighbours(r, func(aid int, t reflect.Type, vd string) { emit("remarshal cbor %d %d %s", aid, tid(t), vd) })
	for _, d := range []int{17, 33, 65, 100} {
		for _, dv := range deepValues(d) {
			emit("remarshal cbor 1 %d %s", tid(dv.t), dv.vd)
			emit("remarshal json 3 %d %s", tid(dv.t), dv.vd)
		}
	}
}

// several tagged struct values side by side in one untyped container (one value machine serves them all): sparse after
// full, maps after maps, in every order
func taggedNeighbours(r *rng, emitOne func(aid int, t reflect.Type, vd string)) {
	bt, tm := reflect.TypeOf(Blob{}), reflect.TypeOf(TwoMaps{})
	sl, mp := reflect.TypeOf([]interface{}{}), reflect.TypeOf(map[string]interface{}{})
	o := genOpts{depth: 2, roundtrip: true, tagged: true, cbor: true}
	for _, aid := range []int{2, 3} {
		for i := 0; i < 40; i++ {
			var parts, mparts []string
			for j := 0; j < 2+r.intn(3); j++ {
				ct := []reflect.Type{bt, bt, tm}[r.intn(3)]
				v := genValue(r, ct, o)
				if j > 0 && r.chance(1, 3) && ct == bt {
					v = "S(n,n,s)" // everything omitted or nil after a fuller neighbour
				}
				parts = append(parts, fmt.Sprintf("I%d:%s", tid(ct), v))
				mparts = append(mparts, fmt.Sprintf("s%02x=I%d:%s", 0x61+j, tid(ct), v))
			}
			emitOne(aid, sl, "["+strings.Join(parts, ",")+"]")
			emitOne(aid, mp, "M{"+strings.Join(mparts, ",")+"}")
		}
	}
}

func genClone(tier string, seed uint64) {
	emitDefs()
	r := &rng{s: seed}
	n := 25
	if tier == "thorough" {
		n = 3000
	}
	for _, a := range zooAtlases() {
		for _, t := range roundtripTypes(a) {
			for i := 0; i < n; i++ {
				vd := genValue(r, t, genOpts{depth: 1 + r.intn(4), roundtrip: true, tagged: a.id == 2 || a.id == 3, cbor: true})
				emit("clone %d %d %s", a.id, tid(t), vd)
				if i%3 == 0 && t.Kind() != reflect.Interface {
					emit("clonev %d %d %s", a.id, tid(t), vd)
				}
			}
		}
	}
	for _, d := range []int{17, 33, 65, 100} {
		for _, dv := range deepValues(d) {
			emit("clone 1 %d %s", tid(dv.t), dv.vd)
			emit("clone 2 %d %s", tid(dv.t), dv.vd)
		}
	}
	// byte strings and strings around and past 64 KiB (copy-avoidance thresholds): top level, struct field, untyped slot,
	// behind a transform
	bt := tid(reflect.TypeOf([]byte{}))
	for _, n := range []int{4096, 65535, 65536, 65537, 70000, 200000} {
		x := "x" + hexStr(n, 7)
		emit("clone 1 %d %s", bt, x)
		emit("clonev 1 %d %s", bt, x)
		emit("clone 1 %d S(%s,X01020304,xn,X0506)", tid(reflect.TypeOf(PaySum{})), x)
		emit("clone 1 %d [I%d:%s,I%d:i1]", tid(reflect.TypeOf([]interface{}{})), bt, x, tid(reflect.TypeOf(int(0))))
		emit("clone 2 %d S(%s)", tid(reflect.TypeOf(TrOpt{})), x)
		emit("clone 1 %d A[%s,x01]", tid(reflect.TypeOf([2][]byte{})), x)
		emit("clone 1 %d s%s", tid(reflect.TypeOf("")), hexStr(n, 0x61))
	}
}

func genPump(tier string, seed uint64) {
	emitDefs()
	r := &rng{s: seed}
	n := 6000
	ncli := 300
	if tier == "thorough" {
		n, ncli = 600000, 6000
	}
	for i := 0; i < n; i++ {
		cli := ""
		if i < ncli {
			cli = " cli"
		}
		if r.chance(1, 2) {
			var sb strings.Builder
			randJSON(r, r.intn(5), &sb)
			doc := []byte(sb.String())
			if r.chance(1, 10) && len(doc) > 1 {
				doc = doc[:r.intn(len(doc))]
			} else if r.chance(1, 4) && len(doc) > 0 {
				// one byte replaced: raw control characters, quotes, backslashes, invalid UTF-8, stray punctuation
				doc = append([]byte{}, doc...)
				doc[r.intn(len(doc))] = []byte{0x00, 0x01, 0x09, 0x0a, 0x1f, 0x22, 0x5c, 0x7f, 0x80, 0xff, ',', ':', '}', ']', '0', 'e', '-'}[r.intn(17)]
			}
			emit("pump json cbor nil - %s%s", hexOrDash(doc), cli)
			if r.chance(1, 4) {
				emit("pump json json 0a 09 %s", hexOrDash(doc))
			}
		} else {
			var item []byte
			genItem(r, r.intn(5), &item, false)
			if r.chance(1, 10) && len(item) > 1 {
				item = item[:r.intn(len(item))]
			} else if r.chance(1, 5) && len(item) > 0 {
				item = append([]byte{}, item...)
				item[r.intn(len(item))] = byte(r.next())
			}
			emit("pump cbor json nil - %s%s", hexOrDash(item), cli)
			if r.chance(1, 4) {
				emit("pump cbor cbor nil - %s", hexOrDash(item))
			}
			if r.chance(1, 6) {
				ind := [][2]string{{"0a", "09"}, {"0a", "20202020"}, {"0d0a", "2020"}, {"0a", strings.Repeat("20", 33)}, {"-", "2020"}, {"0a", "-"}}[r.intn(6)]
				emit("pump cbor json %s %s %s", ind[0], ind[1], hexOrDash(item))
			}
		}
	}
	// chunked strings totalling more than 1 MiB (growth steps of an accumulation buffer), numbers JSON spells in ways
	// CBOR does not
	for _, nh := range []int{17, 18, 19, 36} {
		var b []byte
		b = append(b, 0x7f)
		for i := 0; i < nh; i++ {
			b = append(append(b, headBytes(0x60, 60000, 0)...), bytes.Repeat([]byte{byte(0x61 + i%26)}, 60000)...)
		}
		b = append(b, 0xff)
		emit("pump cbor json nil - %s", hexOrDash(b))
		emit("pump cbor cbor nil - %s", hexOrDash(b))
	}
	for _, lit := range []string{"123456789012345678901234567890E-10", "18446744073709551616E+2", "18446744073709551616e+2", "1E2", "[1E400]", "-0", "[1e19,1E19]",
		strings.Repeat("9", 70), strings.Repeat("9", 70) + "E-60", "{\"a\":2E0,\"b\":2e0}"} {
		emit("pump json cbor nil - %x", lit)
		emit("pump json json nil - %x", lit)
	}
	if tier == "thorough" {
		// hunks within the decoder's 32 MiB cap, more than the cap in total (the cap is per hunk): still transcoded
		hunk := append(headBytes(0x60, 12<<20, 0), bytes.Repeat([]byte{0x62}, 12<<20)...)
		item := append(append(append(append([]byte{0x7f}, hunk...), hunk...), hunk...), 0xff)
		emit("pump cbor json nil - %s", hexOrDash(item))
	}
	emitShapes("pump", tier)
	// line / indent options whose separator (comma + line + depth * indent) crosses the sizes of the encoder's fixed
	// scratch areas: nested arrays and maps with at least two entries at every depth, both source formats
	maxD := 40
	if tier == "thorough" {
		maxD = 140
	}
	for _, ind := range [][2]string{{"0a", "09"}, {"0a", "2020"}, {"0a", "20202020"}, {"0d0a", strings.Repeat("20", 31)}, {"0a", strings.Repeat("09", 70)}} {
		for d := 1; d <= maxD; d++ {
			if len(ind[1]) > 20 && d > 6 {
				break
			}
			ja := strings.Repeat("[0,", d) + "1,2" + strings.Repeat(",3]", d)
			jm := strings.Repeat(`{"a":0,"k":`, d) + `{"x":1,"y":2}` + strings.Repeat(`,"z":[]}`, d)
			emit("pump json json %s %s %s", ind[0], ind[1], hex.EncodeToString([]byte(ja)))
			emit("pump json json %s %s %s", ind[0], ind[1], hex.EncodeToString([]byte(jm)))
			ca := strings.Repeat("8300", d) + "820102" + strings.Repeat("03", d)
			cm := strings.Repeat("a3616100616b", d) + "a2617801617902" + strings.Repeat("617a80", d)
			emit("pump cbor json %s %s %s", ind[0], ind[1], ca)
			emit("pump cbor json %s %s %s", ind[0], ind[1], cm)
		}
	}
}

func genStore(tier string, seed uint64) {
	emitDefs()
	// 2. C09: integers into every numeric kind
	nums := []reflect.Type{}
	for _, v := range []interface{}{int8(0), uint8(0), int16(0), uint16(0), int32(0), uint32(0), int64(0), uint64(0), int(0), uint(0), uintptr(0),
		float32(0), float64(0), MyI8(0), MyU16(0)} {
		nums = append(nums, reflect.TypeOf(v))
	}
	nums = append(nums, reflect.TypeOf((*interface{})(nil)).Elem(), reflect.TypeOf((*int16)(nil)))
	lim := 70000
	stepN := 7
	if tier == "thorough" {
		stepN = 1
	}
	for _, t := range nums[:4] {
		for v := -lim; v <= lim; v += stepN {
			emit("unmarshal 1 %d i%d", tid(t), v)
			if v >= 0 {
				emit("unmarshal 1 %d u%d", tid(t), v)
			}
		}
	}
	for _, t := range nums {
		for k := uint(0); k < 64; k++ {
			for _, d := range []int64{-1, 0, 1} {
				u := uint64(1)<<k + uint64(d)
				emit("unmarshal 1 %d u%d", tid(t), u)
				emit("unmarshal 1 %d i%d", tid(t), int64(u))
				emit("unmarshal 1 %d i%d", tid(t), -int64(u))
			}
		}
		emit("unmarshal 1 %d u18446744073709551615", tid(t))
		emit("unmarshal 1 %d i-9223372036854775808", tid(t))
		emit("unmarshal 1 %d f3ff8000000000000", tid(t))
		emit("unmarshal 1 %d f7ff8000000000001", tid(t))
	}
	// integers into struct FIELDS of narrow kinds, under an autogenerated mapping (1) and under a hand-written one whose
	// entries declare wider types than the fields have (3): the check goes by the field
	nt := tid(reflect.TypeOf(Narrow{}))
	for _, aid := range []int{1, 3} {
		for _, key := range []string{"61", "62", "63", "64"} {
			for k := uint(6); k < 64; k++ {
				for _, d := range []int64{-1, 0, 1} {
					u := uint64(1)<<k + uint64(d)
					emit("unmarshal %d %d {1,s%s,u%d,}", aid, nt, key, u)
					emit("unmarshal %d %d {1,s%s,i%d,}", aid, nt, key, int64(u))
					emit("unmarshal %d %d {-1,s%s,i%d,}", aid, nt, key, -int64(u))
				}
			}
			for _, v := range []int{300, 256, 255, -129, -128, 44, 70000} {
				emit("unmarshal %d %d {2,s%s,i%d,s%s,i%d,}", aid, nt, key, v, key, v+1)
			}
		}
	}
}

// C09 through Clone: integers of every kind cloned into variables of every other kind (top level, by value and by
// pointer, and inside slices)
func genNumClone(tier string, seed uint64) {
	emitDefs()
	var ts []reflect.Type
	for _, v := range []interface{}{int8(0), uint8(0), int16(0), uint16(0), int32(0), uint32(0), int64(0), uint64(0), int(0), uint(0), uintptr(0),
		MyI8(0), MyU16(0), float64(0)} {
		ts = append(ts, reflect.TypeOf(v))
	}
	ts = append(ts, reflect.TypeOf((*interface{})(nil)).Elem())
	for _, st := range ts {
		var vals []string
		switch st.Kind() {
		case reflect.Float64, reflect.Interface:
			continue
		case reflect.Int, reflect.Int8, reflect.Int16, reflect.Int32, reflect.Int64:
			bits := uint(st.Bits())
			for _, v := range []int64{0, 1, -1, 100, -100, 127, 128, -128, -129, 255, 256, 32767, -32768, 65535, 65536, 1<<31 - 1, -(1 << 31), 1 << 31, 1<<32 - 1, 1<<63 - 1, -(1 << 63)} {
				if bits == 64 || (v >= -(1<<(bits-1)) && v <= 1<<(bits-1)-1) {
					vals = append(vals, fmt.Sprintf("i%d", v))
				}
			}
		default:
			bits := uint(st.Bits())
			for _, v := range []uint64{0, 1, 100, 127, 128, 255, 256, 32767, 32768, 65535, 65536, 1<<31 - 1, 1 << 31, 1<<32 - 1, 1 << 32, 1<<63 - 1, 1 << 63, 1<<64 - 1} {
				if bits == 64 || v <= 1<<bits-1 {
					vals = append(vals, fmt.Sprintf("u%d", v))
				}
			}
		}
		for _, dt := range ts {
			for _, v := range vals {
				for _, aid := range []int{0, 1} {
					emit("clonex %d %d %d %s", aid, tid(st), tid(dt), v)
				}
			}
		}
	}
	i64s, u64s := tid(reflect.TypeOf([]int64{})), tid(reflect.TypeOf([]uint64{}))
	for _, v := range []string{"[i-1]", "[i0,i-1]", "[i9223372036854775807,i-9223372036854775808]", "[i5]", "[]"} {
		emit("clonex 1 %d %d %s", i64s, u64s, v)
	}
	for _, v := range []string{"[u18446744073709551615]", "[u0,u9223372036854775808]", "[u9223372036854775807]", "[u5]", "[]"} {
		emit("clonex 1 %d %d %s", u64s, i64s, v)
	}
}

// C09 on the wire: boundary integers as CBOR heads (every width) and JSON texts into every numeric kind
func genNumBytes(tier string, seed uint64) {
	emitDefs()
	nums := []reflect.Type{}
	for _, v := range []interface{}{int8(0), uint8(0), int16(0), uint16(0), int32(0), uint32(0), int64(0), uint64(0), int(0), uint(0),
		float64(0), MyI8(0), MyU16(0), (*int64)(nil), []int64{}} {
		nums = append(nums, reflect.TypeOf(v))
	}
	nums = append(nums, reflect.TypeOf((*interface{})(nil)).Elem())
	var args []uint64
	for _, k := range []uint{0, 1, 4, 5, 7, 8, 15, 16, 31, 32, 52, 53, 62, 63} {
		for _, d := range []int64{-2, -1, 0, 1} {
			args = append(args, uint64(1)<<k+uint64(d))
		}
	}
	args = append(args, 23, 24, 1<<64-1, 1<<64-2, 1<<63+1<<62)
	for _, t := range nums {
		wrap := func(hx string) string {
			if t.Kind() == reflect.Slice {
				return "82" + hx + hx
			}
			return hx
		}
		for _, n := range args {
			for _, major := range []byte{0x00, 0x20} {
				for _, w := range []int{0, 8} {
					emit("unmbytes cbor 1 %d %s", tid(t), wrap(fmt.Sprintf("%x", headBytes(major, n, w))))
				}
			}
			if t.Kind() == reflect.Slice {
				continue
			}
			emit("unmbytes json 1 %d %x", tid(t), fmt.Sprint(n))
			emit("unmbytes json 1 %d %x", tid(t), "-"+fmt.Sprint(n))
			if n < 1<<63 {
				emit("unmbytes json 1 %d %x", tid(t), fmt.Sprint(n)+".0")
				emit("unmbytes json 1 %d %x", tid(t), fmt.Sprint(n)+"e0")
			}
		}
		if t.Kind() == reflect.Slice {
			continue
		}
		if true {
			for _, s := range []string{"18446744073709551616", "-9223372036854775809", "-18446744073709551616", "1e19", "1e3", "-1e3", "12e-1", "0.5",
				"-0", "-0.0", "1E2", "9007199254740993", "9223372036854775807.5", "1e400", "123456789012345678901234567890",
				strings.Repeat("1", 63), strings.Repeat("1", 64), strings.Repeat("1", 65), "-" + strings.Repeat("9", 63), "-" + strings.Repeat("9", 64), strings.Repeat("7", 100),
				strings.Repeat("3", 308), strings.Repeat("3", 309), strings.Repeat("3", 400), "1" + strings.Repeat("0", 64), "1" + strings.Repeat("0", 70) + "E-60", "123456789012345678901234567890E-10",
				"18446744073709551616E+2", "18446744073709551616e+2", "0." + strings.Repeat("0", 70) + "1", strings.Repeat("0", 0) + "1e0"} {
				emit("unmbytes json 1 %d %x", tid(t), s)
			}
		}
	}
	genNumTagged()
	// several entries of a map whose values are POINTERS to narrow integers (one value slot serves all entries)
	for _, pt := range []interface{}{map[string]*int16{}, map[string]*uint8{}} {
		t := reflect.TypeOf(pt)
		for _, doc := range []string{`{"a":1,"b":-2,"c":30000}`, `{"a":1,"b":2}`, `{"a":255,"b":null,"c":7}`, `{"a":300,"b":1}`, `{"a":1,"b":70000}`, `{"x":0,"y":1,"z":2,"w":3}`} {
			emit("unmbytes json 1 %d %x", tid(t), doc)
		}
		for _, doc := range []string{"a3616101616221616319 7530", "a26161016162 02", "a3616118ff6162f6616307", "a261611901 2c616201", "a2616101 61621a00011170"} {
			emit("unmbytes cbor 1 %d %s", tid(t), strings.ReplaceAll(doc, " ", ""))
		}
	}
	// integers side by side (one token slot is reused for all of them): every ordered pair / some triples of boundary
	// values of both signs, into untyped and typed element slots
	var items []string
	for _, n := range []uint64{0, 1, 23, 255, 1<<63 - 1, 1 << 63, 1<<64 - 1} {
		for _, major := range []byte{0x00, 0x20} {
			items = append(items, fmt.Sprintf("%x", headBytes(major, n, 0)))
		}
	}
	for _, v := range []interface{}{[]interface{}{}, []int64{}, []uint64{}, map[string]interface{}{}} {
		t := reflect.TypeOf(v)
		for _, a := range items {
			for _, b := range items {
				if t.Kind() == reflect.Map {
					emit("unmbytes cbor 1 %d a26161%s6162%s", tid(t), a, b)
					continue
				}
				emit("unmbytes cbor 1 %d 82%s%s", tid(t), a, b)
				emit("unmbytes cbor 1 %d 83%sf5%s", tid(t), a, b)
				emit("unmbytes cbor 1 %d 83%s%s%s", tid(t), a, b, a)
				emit("unmbytes cbor 1 %d 82%s81%s", tid(t), a, b)
			}
		}
	}
}

// tagged integer-transform types of different widths side by side in untyped slots: each element is checked
// against ITS OWN width
func genNumTagged() {
	sl := tid(reflect.TypeOf([]interface{}{}))
	mp := tid(reflect.TypeOf(map[string]interface{}{}))
	item := func(tag byte, v int64) string {
		var b []byte
		if v >= 0 {
			b = headBytes(0x00, uint64(v), 0)
		} else {
			b = headBytes(0x20, uint64(-1-v), 0)
		}
		return fmt.Sprintf("d8%02x%x", tag, b)
	}
	vals := []int64{0, 100, 127, 128, 200, 255, 256, 300, 32767, 32768, 70000, -1, -128, -129, -200, -32768, -32769}
	for _, aid := range []int{2, 3} {
		for _, w := range vals {
			for _, n := range vals {
				emit("unmbytes cbor %d %d 82%s%s", aid, sl, item(28, w), item(29, n))
				emit("unmbytes cbor %d %d 82%s%s", aid, sl, item(29, n), item(28, w))
			}
			emit("unmbytes cbor %d %d a26161%s6162%s", aid, mp, item(28, w), item(29, w))
			emit("unmbytes cbor %d %d 83%s%s%s", aid, sl, item(28, w), item(29, 5), item(28, w))
		}
	}
}

func permutations(xs []string, f func([]string)) {
	var rec func(k int)
	rec = func(k int) {
		if k == len(xs) {
			f(xs)
			return
		}
		for i := k; i < len(xs); i++ {
			xs[k], xs[i] = xs[i], xs[k]
			rec(k + 1)
			xs[k], xs[i] = xs[i], xs[k]
		}
	}
	rec(0)
}

func genOrder(tier string, seed uint64) {
	emitDefs()
	r := &rng{s: seed}
	keySets := [][]string{
		{"a", "b"}, {"b", "a", "ab"}, {"", "a", "aa", "aaa"}, {"b", "aa", "a", "ba", "c"}, {"é", "e", "z", "éa"}, {"k1", "k10", "k2", "k"},
		{"\xff", "\x00", "a\x00", "a"}, {"zz", "y", "x", "www", "vvvv"},
		{"k", "aa", "bb", "c", "dddd", "ee", "f", "gg", "hhh", "i", "jj", "kkk", "l", "mm", "n", "ooo", "pp", "q", "rr", "sss", "t", "uu", "vv", "w", "xx", "yyy"},
	}
	hx := func(s string) string {
		return fmt.Sprintf("%x", strings.NewReplacer("\\xff", "\xff", "\\x00", "\x00").Replace(s))
	}
	type target struct {
		aid int
		t   reflect.Type
	}
	var targets []target
	for _, aid := range []int{0, 1, 2, 3, 6} {
		targets = append(targets, target{aid, reflect.TypeOf(map[string]int{})}, target{aid, reflect.TypeOf(StrMap{})}, target{aid, reflect.TypeOf(map[MyStr]int{})},
			target{aid, reflect.TypeOf(map[string]interface{}{})})
	}
	for _, ks := range keySets {
		for _, tg := range targets {
			emitPerm := func(p []string) {
				var parts []string
				for i, k := range p {
					if tg.t.Elem().Kind() == reflect.Interface {
						parts = append(parts, fmt.Sprintf("s%s=I%d:i%d", hx(k), tid(reflect.TypeOf(int(0))), i+len(k)))
						continue
					}
					parts = append(parts, fmt.Sprintf("s%s=i%d", hx(k), i+len(k)))
				}
				for rep := 0; rep < 3; rep++ {
					emit("marshal %d %d 0 M{%s}", tg.aid, tid(tg.t), strings.Join(parts, ","))
				}
			}
			nrand := 12
			if tier == "thorough" {
				nrand = 400
			}
			if len(ks) <= 4 || (tier == "thorough" && len(ks) <= 6) {
				permutations(append([]string{}, ks...), emitPerm)
			} else {
				for i := 0; i < nrand; i++ {
					p := append([]string{}, ks...)
					for j := len(p) - 1; j > 0; j-- {
						k := r.intn(j + 1)
						p[j], p[k] = p[k], p[j]
					}
					emitPerm(p)
				}
			}
		}
	}
	// keys longer than 255 and than 65535 bytes next to short ones (lengths that do not fit one or two bytes)
	for _, tg := range targets {
		if tg.t != reflect.TypeOf(map[string]int{}) && tg.t != reflect.TypeOf(StrMap{}) {
			continue
		}
		for _, n := range []int{255, 256, 257, 65535, 65536, 65537, 70000} {
			long := strings.Repeat("61", n)
			for rep := 0; rep < 2; rep++ {
				emit("marshal %d %d 0 M{s62=i1,s%s=i2,s6162=i3,s=i4,s%s62=i5}", tg.aid, tid(tg.t), long, long[:len(long)-2])
				emit("marshal %d %d 0 M{s%s=i2,s7a=i1}", tg.aid, tid(tg.t), long)
			}
		}
	}
	// struct keys via a transform to string
	for _, aid := range []int{1, 2, 3} {
		ks := [][2]string{{"a", "b"}, {"", "z"}, {"aa", ""}, {"b", "a"}}
		idx := []string{"0", "1", "2", "3"}
		permutations(idx, func(p []string) {
			var parts []string
			for _, i := range p {
				k := ks[int(i[0]-'0')]
				parts = append(parts, fmt.Sprintf("S(s%x,s%x)=s%x", k[0], k[1], i))
			}
			for rep := 0; rep < 3; rep++ {
				emit("marshal %d %d 0 M{%s}", aid, tid(reflect.TypeOf(map[KeyStruct]string{})), strings.Join(parts, ","))
			}
			// the registered map type with the same keys (its own morphism entry)
			var kparts []string
			for _, i := range p {
				k := ks[int(i[0]-'0')]
				kparts = append(kparts, fmt.Sprintf("S(s%x,s%x)=i%s", k[0], k[1], i))
			}
			emit("marshal %d %d 0 M{%s}", aid, tid(reflect.TypeOf(KeyedMap{})), strings.Join(kparts, ","))
		})
	}
	// a named map type with its own morphism next to a plain map in one struct: each map follows its own configuration
	for _, aid := range []int{1, 2, 3, 6} {
		for _, ks := range keySets {
			m := func(rot int) string {
				var parts []string
				for i := range ks {
					k := ks[(i+rot)%len(ks)]
					parts = append(parts, fmt.Sprintf("s%s=i%d", hx(k), i))
				}
				return "M{" + strings.Join(parts, ",") + "}"
			}
			for rep := 0; rep < 2; rep++ {
				emit("marshal %d %d 0 S(%s,%s,%s)", aid, tid(reflect.TypeOf(TwoMaps{})), m(0), m(1), m(2))
				emit("marshal %d %d 0 S(n,%s,%s)", aid, tid(reflect.TypeOf(TwoMaps{})), m(1), m(0))
				emit("marshal %d %d 0 S(%s,%s,n)", aid, tid(reflect.TypeOf(TwoMaps{})), m(2), m(0))
			}
		}
	}
	// autogenerated structs under the three field-sort modes
	for _, aid := range []int{1, 2, 3} {
		for _, t := range []reflect.Type{reflect.TypeOf(Nums{}), reflect.TypeOf(OmitAll{}), reflect.TypeOf(Tagged{}), reflect.TypeOf(WithPtr{})} {
			for i := 0; i < 20; i++ {
				emit("marshal %d %d 0 %s", aid, tid(t), genValue(r, t, genOpts{depth: 2}))
			}
		}
	}
}

// the same struct types autogenerated under the three field-sort modes in every sequence of modes
// (a mapping must not depend on which modes were asked for earlier)
func genSortModes(tier string, seed uint64) {
	emitDefs()
	modes := []string{"default", "strings", "rfc7049"}
	var ts []reflect.Type
	for _, v := range []interface{}{Inner{}, WithPtr{}, Emb{}, Rec{}, Tagged{}, OmitAll{}, Nums{}, HasShape{}, TwoMaps{}, MapKeyed{}} {
		ts = append(ts, reflect.TypeOf(v))
	}
	for k, fam := range shapeFamilies {
		if k%8 == 0 || tier == "thorough" {
			ts = append(ts, fam.all...)
		}
	}
	for i, t := range ts {
		permutations(append([]string{}, modes...), func(p []string) {
			if i%6 != 0 && tier != "thorough" && p[0] != modes[i%3] {
				return
			}
			for _, m := range p {
				emit("autogen %d %s", tid(t), m)
			}
		})
	}
}

func genAutogen(tier string, seed uint64) {
	emitDefs()
	r := &rng{s: seed}
	// first of all (nothing has asked for these modes yet in this process): the type mapped through the "json" tag key,
	// then through "refmt"
	for k, fam := range shapeFamilies {
		for _, t := range fam.all {
			emit("autogenj %d %s", tid(t), []string{"rfc7049", "strings"}[k%2])
		}
	}
	for _, fam := range shapeFamilies {
		for _, t := range fam.all {
			for _, m := range []string{"default", "strings", "rfc7049"} {
				emit("autogen %d %s", tid(t), m)
			}
		}
	}
	for _, v := range []interface{}{Inner{}, WithPtr{}, Emb{}, EmbPtr{}, Rec{}, Tagged{}, OmitAll{}, Nums{}, HasShape{}} {
		for _, m := range []string{"default", "strings", "rfc7049"} {
			emit("autogen %d %s", tid(reflect.TypeOf(v)), m)
		}
	}
	// values of the generated types through their autogenerated mappings, embedded pointers nil and non-nil
	n := 3
	if tier == "thorough" {
		n = 200
	}
	for k, fam := range shapeFamilies {
		for i := 0; i < n; i++ {
			for _, f := range []string{"cbor", "json"} {
				v := genValue(r, fam.root, genOpts{depth: 4, jsonSafe: f == "json", roundtrip: true, cbor: f == "cbor"})
				emit("roundtrip %s %d %d nil - %s", f, 100+k, tid(fam.root), v)
			}
		}
	}
}

// number of Write calls a successful marshal of the value makes (0 if it fails)
func histWriteCalls(f string, aid int, t reflect.Type, vd string) int {
	rv, err := buildValue(t, vd)
	if err != nil {
		return 0
	}
	src := reflect.New(t)
	src.Elem().Set(rv)
	h := &histState{format: f}
	w := &histWriter{}
	w.reset(-1)
	e, pn := safely(func() error {
		return refmt.NewMarshallerAtlased(h.eopts(), w, atlasByID(fmt.Sprint(aid)).atl).Marshal(src.Interface())
	})
	if e != nil || pn {
		return 0
	}
	return w.calls
}

// histories on long-lived instances, and back-to-back framing
func genHist(tier string, seed uint64) {
	emitDefs()
	r := &rng{s: seed}
	nh, hl := 300, 40
	if tier == "thorough" {
		nh, hl = 10000, 400
	}
	types := []reflect.Type{}
	for _, v := range []interface{}{int(0), "", []int{}, map[string]int{}, Inner{}, WithPtr{}, Emb{}, Rec{}, Tagged{}, OmitAll{}, Nums{}, HasShape{},
		TrNum(0), KeyStruct{}, MapKeyed{}, NoAtlas{}, HasNoAtlas{}, []byte{}, StrMap{}, map[string]NoAtlas{}, map[string][]NoAtlas{},
		[]map[string]int{}, map[string]interface{}{}, TwoMaps{}, TrSq{}} {
		types = append(types, reflect.TypeOf(v))
	}
	types = append(types, reflect.TypeOf((*interface{})(nil)).Elem())
	for i := 0; i < nh; i++ {
		f := []string{"cbor", "json"}[r.intn(2)]
		var ops []string
		for j := 0; j < 1+r.intn(hl); j++ {
			aid := 1 + r.intn(5)
			t := types[r.intn(len(types))]
			o := genOpts{depth: 1 + r.intn(3), jsonSafe: f == "json" && !r.chance(1, 10), roundtrip: true, tagged: aid == 2 || aid == 3, cbor: f == "cbor"}
			switch r.intn(10) {
			case 0, 1, 2, 3:
				vd := genValue(r, t, o)
				if r.chance(1, 4) {
					// the writer fails at one of the Write calls this marshal needs: the run is abandoned at that point
					if n := histWriteCalls(f, aid, t, vd); n > 0 {
						ops = append(ops, fmt.Sprintf("M|%d|%d|%s|%d", aid, tid(t), vd, r.intn(n)))
						break
					}
				}
				ops = append(ops, fmt.Sprintf("M|%d|%d|%s", aid, tid(t), vd))
			case 4, 5:
				if r.chance(1, 3) {
					// clone into another type of similar shape: maps <-> structs, slices <-> arrays, ints <-> strings
					t2 := types[r.intn(len(types))]
					ops = append(ops, fmt.Sprintf("X|%d|%d|%s|%d", aid, tid(t), genValue(r, t, o), tid(t2)))
					break
				}
				ops = append(ops, fmt.Sprintf("C|%d|%d|%s", aid, tid(t), genValue(r, t, o)))
			default:
				// an item for the unmarshaller: a valid encoding of a value of the type, or of another type (wrong kind)
				st := t
				if r.chance(1, 5) {
					st = []reflect.Type{reflect.TypeOf(""), reflect.TypeOf(int(0)), reflect.TypeOf(false)}[r.intn(3)]
				}
				vd := genValue(r, st, o)
				res := opRoundtrip([]string{f, fmt.Sprint(aid), fmt.Sprint(tid(st)), "nil", "-", vd})
				hx := strings.Split(strings.TrimPrefix(strings.Split(res, " ")[0], "I="), "/")[0]
				if hx == "-" || hx == "" {
					continue
				}
				if f == "json" {
					hx += "0a"
				}
				ops = append(ops, fmt.Sprintf("U|%d|%d|%s", aid, tid(t), hx))
			}
		}
		if len(ops) > 0 {
			emit("hist %s %s", f, strings.Join(ops, ";"))
		}
	}
	// systematic: a marshal abandoned at EVERY Write position (writer failure), then the same instance reused for
	// values of several shapes; likewise a clone abandoned because the destination type rejects part-way
	var shapes []reflect.Type
	for _, v := range []interface{}{map[string]int{}, StrMap{}, TwoMaps{}, MapKeyed{}, []map[string]int{}, map[string]interface{}{}, Inner{}, []int{},
		WithPtr{}, HasShape{}} {
		shapes = append(shapes, reflect.TypeOf(v))
	}
	nonEmpty := func(t reflect.Type, o genOpts) string {
		vd := genValue(r, t, o)
		for try := 0; try < 8 && len(vd) < 12; try++ {
			vd = genValue(r, t, o)
		}
		return vd
	}
	reps := 1
	if tier == "thorough" {
		reps = 20
	}
	for rep := 0; rep < reps; rep++ {
		for _, f := range []string{"cbor", "json"} {
			for _, aid := range []int{1, 3} {
				o := genOpts{depth: 2, jsonSafe: f == "json", roundtrip: true, tagged: aid == 3, cbor: f == "cbor"}
				for _, t := range shapes {
					vd := nonEmpty(t, o)
					n := histWriteCalls(f, aid, t, vd)
					for k := 0; k < n && k < 40; k++ {
						t2 := shapes[(k+rep)%len(shapes)]
						t3 := shapes[(k+rep+3)%len(shapes)]
						emit("hist %s M|%d|%d|%s|%d;M|%d|%d|%s;M|%d|%d|%s", f, aid, tid(t), vd, k, aid, tid(t2), nonEmpty(t2, o), aid, tid(t3), nonEmpty(t3, o))
					}
					for _, t2 := range shapes {
						if t2 == t {
							continue
						}
						t3 := shapes[(rep+len(vd))%len(shapes)]
						emit("hist %s X|%d|%d|%s|%d;C|%d|%d|%s;C|%d|%d|%s", f, aid, tid(t), vd, tid(t2), aid, tid(t), nonEmpty(t, o), aid, tid(t3), nonEmpty(t3, o))
					}
				}
			}
		}
	}
	// decoder-level reuse: an item that fails inside a tag / a literal cut short, then well-formed items on the same
	// long-lived Unmarshaller (whatever the failed call left in the decoder must not leak into the next call)
	{
		ifaceT := tid(reflect.TypeOf((*interface{})(nil)).Elem())
		innerT := tid(reflect.TypeOf(Inner{}))
		res := opRoundtrip([]string{"cbor", "2", fmt.Sprint(innerT), "nil", "-", "S(i7,s6161)"})
		goodTagged := strings.Split(strings.TrimPrefix(strings.Split(res, " ")[0], "I="), "/")[0]
		for _, bad := range []string{"c1f7", "c1f8ff", "c1c101", "c1", "d8", "d864", "c1ff", "d864a1", "c17f61", "9fc1", "c1fc"} {
			for _, good := range []string{goodTagged, "82" + goodTagged + goodTagged, "d81763343232", "a1616b" + goodTagged} {
				emit("hist cbor U|2|%d|%s;U|2|%d|%s;U|2|%d|%s", ifaceT, bad, ifaceT, good, ifaceT, good)
				emit("hist cbor U|2|%d|%s;U|2|%d|%s", innerT, bad, innerT, goodTagged)
			}
		}
		// the same refusal twice in a row (an unregistered tag, an unknown union member, an unknown field), then an item
		// that must be accepted
		for _, bad := range []string{"d86301", "d863a0", "d9270f6161", "c501"} {
			emit("hist cbor U|2|%d|%s;U|2|%d|%s;U|2|%d|%s;U|2|%d|%s", ifaceT, bad, ifaceT, bad, ifaceT, goodTagged, ifaceT, bad)
			emit("hist cbor U|2|%d|82%s%s;U|2|%d|81%s;U|2|%d|%s", ifaceT, goodTagged, bad, ifaceT, bad, ifaceT, "82"+goodTagged+goodTagged)
		}
		for _, c := range [][2]string{{"true", "tru"}, {"true", "t"}, {"false", "fals"}, {"false", "f"}, {"null", "nul"}, {"null", "n"},
			{"[1,true]", "tru"}, {"{\"a\":false}", "f"}, {"[null]", "nu"}, {"[true,false]", "fa"}, {"\"abc\"", "\"ab"}, {"123", "-"}, {"1.5e3", "1.5e"}} {
			emit("hist json U|1|%d|%x0a;U|1|%d|%x", ifaceT, c[0], ifaceT, c[1])
			emit("hist json U|1|%d|%x0a;U|1|%d|%x;U|1|%d|%x0a", ifaceT, c[0], ifaceT, c[1], ifaceT, c[0])
		}
	}
	// (a) top-level scalars abandoned at every Write position, then the instance reused; (b) JSON values with something
	// JSON cannot carry (byte strings) in a non-first position, the writer failing at every position before it, then reuse;
	// (c) items whose mismatch with the target lies INSIDE a container (the sink walks away while the decoder is in the
	// middle of it), then a well-formed item; (d) an item nested deeper than any stack's initial capacity, then a small
	// one; (e) a call with a target Bind rejects while the next item is waiting
	{
		intT, strT, bytesT := reflect.TypeOf(int(0)), reflect.TypeOf(""), reflect.TypeOf([]byte{})
		ifsl := reflect.TypeOf([]interface{}{})
		for _, f := range []string{"cbor", "json"} {
			for _, sc := range []struct {
				t  reflect.Type
				vd string
			}{{intT, "i5"}, {intT, "i-70000"}, {strT, "s6162"}, {bytesT, "x010203"}, {reflect.TypeOf(float64(0)), "f3ff8000000000000"}, {reflect.TypeOf(false), "b1"}} {
				if f == "json" && sc.t == bytesT {
					continue
				}
				for k := 0; k < histWriteCalls(f, 1, sc.t, sc.vd); k++ {
					emit("hist %s M|1|%d|%s|%d;M|1|%d|[i1,i2];M|1|%d|%s", f, tid(sc.t), sc.vd, k, tid(reflect.TypeOf([]int{})), tid(sc.t), sc.vd)
				}
			}
		}
		for _, vd := range []string{fmt.Sprintf("[I%d:i1,I%d:x0102]", tid(intT), tid(bytesT)), fmt.Sprintf("[I%d:s61,I%d:i2,I%d:f7ff8000000000001]", tid(strT), tid(intT), tid(reflect.TypeOf(float64(0)))),
			fmt.Sprintf("[I%d:[I%d:i1,I%d:x]]", tid(ifsl), tid(intT), tid(bytesT))} {
			// (the value cannot be marshalled to JSON at all: the run fails with or without the writer fault)
			n := 12
			for k := 0; k < n; k++ {
				emit("hist json M|1|%d|%s|%d;M|1|%d|%s;M|1|%d|[I%d:i7]", tid(ifsl), vd, k, tid(ifsl), vd, tid(ifsl), tid(intT))
				emit("hist json M|1|%d|%s|%d;M|1|%d|[I%d:i7];M|1|%d|[I%d:i8]", tid(ifsl), vd, k, tid(ifsl), tid(intT), tid(ifsl), tid(intT))
			}
			emit("hist json M|1|%d|%s;M|1|%d|[I%d:i7];M|1|%d|%s;M|1|%d|[I%d:i8]", tid(ifsl), vd, tid(ifsl), tid(intT), tid(ifsl), vd, tid(ifsl), tid(intT))
		}
		slInt, mpInt, innerT := tid(reflect.TypeOf([]int{})), tid(reflect.TypeOf(map[string]int{})), tid(reflect.TypeOf(Inner{}))
		for _, c := range [][3]string{
			{"cbor", fmt.Sprint(slInt), "82016178"}, {"cbor", fmt.Sprint(slInt), "9f016178ff"}, {"cbor", fmt.Sprint(slInt), "83010203"[:6] + "8101"},
			{"cbor", fmt.Sprint(mpInt), "a2616101616261 78"}, {"cbor", fmt.Sprint(innerT), "a2617801617a02"}, {"cbor", fmt.Sprint(innerT), "a3617801617801617902"},
			{"cbor", fmt.Sprint(slInt), "8201820203"}, {"cbor", fmt.Sprint(mpInt), "a26161016161 02"},
			{"json", fmt.Sprint(slInt), hex.EncodeToString([]byte(`[1,"x"]`))}, {"json", fmt.Sprint(mpInt), hex.EncodeToString([]byte(`{"a":1,"b":"x"}`))},
			{"json", fmt.Sprint(innerT), hex.EncodeToString([]byte(`{"x":1,"z":2}`))}, {"json", fmt.Sprint(slInt), hex.EncodeToString([]byte(`[1,[2]]`))}} {
			bad := strings.ReplaceAll(c[2], " ", "")
			good, goodSl := "05", "820102"
			if c[0] == "json" {
				bad += "0a"
				good, goodSl = hex.EncodeToString([]byte("5\n")), hex.EncodeToString([]byte("[1,2]\n"))
			}
			emit("hist %s U|1|%s|%s;U|1|%d|%s;U|1|%d|%s", c[0], c[1], bad, tid(intT), good, slInt, goodSl)
			emit("hist %s U|1|%s|%s;U|1|%d|%s;U|1|%s|%s", c[0], c[1], bad, slInt, goodSl, c[1], bad)
		}
		for _, d := range []int{40, 81, 90, 100, 130} {
			for _, dv := range deepValues(d) {
				for _, f := range []string{"cbor", "json"} {
					res := opRoundtrip([]string{f, "1", fmt.Sprint(tid(dv.t)), "nil", "-", dv.vd})
					hx := strings.Split(strings.TrimPrefix(strings.Split(res, " ")[0], "I="), "/")[0]
					if hx == "-" || hx == "" {
						continue
					}
					good := "05"
					if f == "json" {
						hx += "0a"
						good = hex.EncodeToString([]byte("5\n"))
					}
					emit("hist %s U|1|%d|%s;U|1|%d|%s;U|1|%d|%s;U|1|%d|%s", f, tid(dv.t), hx, tid(intT), good, tid(dv.t), hx, tid(intT), good)
					emit("hist %s M|1|%d|%s;M|1|%d|i5;M|1|%d|%s", f, tid(dv.t), dv.vd, tid(intT), tid(dv.t), dv.vd)
				}
			}
		}
		for _, c := range [][3]string{{"cbor", fmt.Sprint(tid(intT)), "05"}, {"cbor", fmt.Sprint(slInt), "820102"}, {"cbor", fmt.Sprint(innerT), "a2617801617961 61"[:14] + "6161"},
			{"cbor", fmt.Sprint(tid(strT)), "6161"}, {"json", fmt.Sprint(tid(intT)), hex.EncodeToString([]byte("5\n"))}, {"json", fmt.Sprint(slInt), hex.EncodeToString([]byte("[1,2]\n"))}} {
			emit("hist %s B|1|%s|%s;U|1|%s|%s", c[0], c[1], c[2], c[1], c[2])
			emit("hist %s U|1|%s|%s;B|1|%s|%s;B|1|%s|%s", c[0], c[1], c[2], c[1], c[2], c[1], c[2])
		}
	}
	// the atlas-less helpers, call after call, failing calls (something unrepresentable nested inside a container) in between
	{
		ifsl := tid(reflect.TypeOf([]interface{}{}))
		ifmp := tid(reflect.TypeOf(map[string]interface{}{}))
		intT := tid(reflect.TypeOf(int(0)))
		strT := tid(reflect.TypeOf(""))
		naT := tid(reflect.TypeOf(NoAtlas{}))
		good := []string{fmt.Sprintf("H|0|%d|[I%d:i1,I%d:s61]", ifsl, intT, strT), fmt.Sprintf("H|0|%d|i7", intT), fmt.Sprintf("H|0|%d|M{s6b=I%d:i2}", ifmp, intT), fmt.Sprintf("H|0|%d|s6869", strT)}
		bad := []string{fmt.Sprintf("H|0|%d|[I%d:i1,I%d:i2,I%d:S(i1)]", ifsl, intT, intT, naT), fmt.Sprintf("H|0|%d|M{s61=I%d:i1,s62=I%d:S(i1)}", ifmp, intT, naT), fmt.Sprintf("H|0|%d|S(i1)", naT)}
		for _, f := range []string{"cbor", "json"} {
			for i, b := range bad {
				for j := range good {
					emit("hist %s %s;%s;%s;%s;%s", f, good[j], b, good[(j+1)%len(good)], bad[(i+1)%len(bad)], good[j])
				}
			}
		}
	}
	// byte strings and strings in the indefinite-length (chunked) spelling, item after item on one Unmarshaller: what an
	// earlier call returned must not change when a later call assembles its own chunks
	{
		ifaceT := tid(reflect.TypeOf((*interface{})(nil)).Elem())
		bytesT := tid(reflect.TypeOf([]byte{}))
		strT := tid(reflect.TypeOf(""))
		arrT := tid(reflect.TypeOf([2][]byte{}))
		chunked := func(major byte, parts ...string) string {
			b := []byte{major | 0x1f}
			for _, p := range parts {
				b = append(append(b, headBytes(major, uint64(len(p)), 0)...), p...)
			}
			return hex.EncodeToString(append(b, 0xff))
		}
		docs := [][]string{{"first-item"}, {"2nd", "-it", "em"}, {"a"}, {}, {"0123456789abcdef", "0123456789abcdefXYZ"}, {"zz", "", "y"}}
		for i := range docs {
			for j := range docs {
				if i == j {
					continue
				}
				k := (i + j) % len(docs)
				for _, tt := range []int{bytesT, ifaceT} {
					emit("hist cbor U|1|%d|%s;U|1|%d|%s;U|1|%d|%s", tt, chunked(0x40, docs[i]...), tt, chunked(0x40, docs[j]...), tt, chunked(0x40, docs[k]...))
				}
				emit("hist cbor U|1|%d|%s;U|1|%d|%s;U|1|%d|%s", strT, chunked(0x60, docs[i]...), ifaceT, chunked(0x60, docs[j]...), strT, chunked(0x60, docs[k]...))
				emit("hist cbor U|1|%d|82%s%s;U|1|%d|82%s%s", arrT, chunked(0x40, docs[i]...), chunked(0x40, docs[j]...), arrT, chunked(0x40, docs[k]...), chunked(0x40, docs[i]...))
				emit("hist cbor U|1|%d|%s;U|1|%d|%x%s;U|1|%d|%x%s", bytesT, chunked(0x40, docs[i]...), bytesT, headBytes(0x40, uint64(len(docs[j])*3), 0), strings.Repeat("414243", len(docs[j])), ifaceT, headBytes(0x40, 10, 0), "30313233343536373839")
			}
		}
	}
	nf := 400
	if tier == "thorough" {
		nf = 30000
	}
	// JSON items written back to back with NO separator: every item after a number starts with a character that
	// cannot continue a number, so the stream is still self-delimiting
	{
		ifaceT := reflect.TypeOf((*interface{})(nil)).Elem()
		intT, strT := tid(reflect.TypeOf(int(0))), tid(reflect.TypeOf(""))
		for i := 0; i < nf/8; i++ {
			var vals []string
			for j := 0; j < 2+r.intn(10); j++ {
				if j%2 == 0 {
					vals = append(vals, fmt.Sprintf("I%d:i%d", intT, int64(r.next()>>uint(r.intn(64)))-int64(r.intn(3))))
				} else {
					o := genOpts{depth: 1 + r.intn(2), jsonSafe: true, roundtrip: true}
					switch r.intn(4) {
					case 0:
						vals = append(vals, fmt.Sprintf("I%d:%s", strT, genValue(r, reflect.TypeOf(""), o)))
					case 1:
						vals = append(vals, fmt.Sprintf("I%d:%s", tid(reflect.TypeOf([]interface{}{})), genValue(r, reflect.TypeOf([]interface{}{}), o)))
					case 2:
						vals = append(vals, fmt.Sprintf("I%d:%s", tid(reflect.TypeOf(map[string]interface{}{})), genValue(r, reflect.TypeOf(map[string]interface{}{}), o)))
					default:
						vals = append(vals, "n")
					}
				}
			}
			emit("frame0 json 1 %d %s", tid(ifaceT), strings.Join(vals, "|"))
		}
	}
	for i := 0; i < nf; i++ {
		f := []string{"cbor", "json"}[r.intn(2)]
		aid := 1 + r.intn(3)
		t := types[r.intn(len(types)-4)]
		var vals []string
		for j := 0; j < 2+r.intn(19); j++ {
			vals = append(vals, genValue(r, t, genOpts{depth: 1 + r.intn(3), jsonSafe: f == "json", roundtrip: true, tagged: aid == 2 || aid == 3, cbor: f == "cbor"}))
		}
		emit("frame %s %d %d %s", f, aid, tid(t), strings.Join(vals, "|"))
	}
}
