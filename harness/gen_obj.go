package main

import (
	"fmt"
	"reflect"
	"strings"
)

func emitDefs() {
	for _, l := range zooDefs() {
		emit("%s", l)
	}
}

func genMarshal(tier string, seed uint64) {
	emitDefs()
	r := &rng{s: seed}
	n := 40
	if tier == "thorough" {
		n = 1500
	}
	for _, a := range atlases {
		for _, t := range rootTypes() {
			k := t.Kind()
			if k == reflect.Func || k == reflect.Chan || k == reflect.Complex64 {
				emit("marshal %d %d 0 n", a.id, tid(t))
				continue
			}
			cnt := n
			if k == reflect.Bool {
				cnt = 4
			}
			for i := 0; i < cnt; i++ {
				v := genValue(r, t, genOpts{depth: 1 + r.intn(4)})
				emit("marshal %d %d %d %s", a.id, tid(t), r.intn(2), v)
			}
		}
	}
}

var umAlphabet = []string{"{-1", "{0", "{1", "{2", "}", "[-1", "[0", "[1", "[2", "]", "0", "s", "s78", "s79", "s7a6564", "s6578", "s616c706861", "s6c6567616379",
	"s636972636c65", "s72", "s311f32", "s3432", "x", "x0102", "x01020304", "b0", "b1", "i-1", "i0", "i300", "u0", "u7", "u70000", "f3ff8000000000000",
	"t100.{-1", "t23.s3432", "t24.x0102", "t7.i1", "t100.0"}

func genUnmarshal(tier string, seed uint64) {
	emitDefs()
	r := &rng{s: seed}
	maxLen := 3
	if tier == "thorough" {
		maxLen = 4
	}
	targets := rootTypes()
	// 1. exhaustive token sequences (prefix-pruned on the real unmarshaller) over the alphabet for every target, atlas 2 (tags) and 0
	for _, aid := range []int{2, 0, 4, 3} {
		a := atlases[aid]
		for _, t := range targets {
			k := t.Kind()
			if k == reflect.Func || k == reflect.Chan || k == reflect.Complex64 {
				emit("unmarshal %d %d 0", aid, tid(t))
				continue
			}
			if aid == 0 && k != reflect.Struct && k != reflect.Interface {
				continue
			}
			if aid == 4 && t != reflect.TypeOf(EmbPtr{}) {
				continue
			}
			if aid == 3 && t != reflect.TypeOf(Emb{}) && t != reflect.TypeOf(StrMap{}) {
				continue
			}
			var rec func(prefix []string)
			rec = func(prefix []string) {
				for _, s := range umAlphabet {
					seq := append(append([]string(nil), prefix...), s)
					line := strings.Join(seq, ",")
					emit("unmarshal %d %d %s", aid, tid(t), line)
					if len(seq) >= maxLen {
						continue
					}
					res := opUnmarshal([]string{fmt.Sprint(a.id), fmt.Sprint(tid(t)), line})
					fl := strings.TrimPrefix(strings.Split(res, " ")[0], "I=")
					if len(fl) == len(seq) && strings.HasSuffix(fl, ".") {
						rec(seq)
					}
				}
			}
			rec(nil)
		}
	}
	// 2. C09: integers into every numeric kind
	nums := []reflect.Type{}
	for _, v := range []interface{}{int8(0), uint8(0), int16(0), uint16(0), int32(0), uint32(0), int64(0), uint64(0), int(0), uint(0), uintptr(0),
		float32(0), float64(0), MyI8(0), MyU16(0)} {
		nums = append(nums, reflect.TypeOf(v))
	}
	nums = append(nums, reflect.TypeOf((*interface{})(nil)).Elem(), reflect.TypeOf((*int16)(nil)))
	lim := 70000
	stepN := 7
	if tier == "thorough" {
		stepN = 1
	}
	for _, t := range nums[:4] {
		for v := -lim; v <= lim; v += stepN {
			emit("unmarshal 1 %d i%d", tid(t), v)
			if v >= 0 {
				emit("unmarshal 1 %d u%d", tid(t), v)
			}
		}
	}
	for _, t := range nums {
		for k := uint(0); k < 64; k++ {
			for _, d := range []int64{-1, 0, 1} {
				u := uint64(1)<<k + uint64(d)
				emit("unmarshal 1 %d u%d", tid(t), u)
				emit("unmarshal 1 %d i%d", tid(t), int64(u))
				emit("unmarshal 1 %d i%d", tid(t), -int64(u))
			}
		}
		emit("unmarshal 1 %d u18446744073709551615", tid(t))
		emit("unmarshal 1 %d i-9223372036854775808", tid(t))
		emit("unmarshal 1 %d f3ff8000000000000", tid(t))
		emit("unmarshal 1 %d f7ff8000000000001", tid(t))
	}
	_ = r
}
