package main

import (
	"fmt"
	"reflect"
	"sort"
	"strconv"
	"strings"
	"unicode"
	"unicode/utf8"

	"github.com/polydawn/refmt/obj/atlas"
)

func sortMode(s string) atlas.KeySortMode {
	switch s {
	case "strings":
		return atlas.KeySortMode_Strings
	case "rfc7049":
		return atlas.KeySortMode_RFC7049
	}
	return atlas.KeySortMode_Default
}

func showFields(fs []atlas.StructMapEntry) string {
	if len(fs) == 0 {
		return "-"
	}
	parts := make([]string, len(fs))
	for i, f := range fs {
		parts[i] = fmt.Sprintf("%x:%s:%d:%s", f.SerialName, routeStr(f.ReflectRoute), tid(f.Type), b01(f.OmitEmpty))
	}
	return strings.Join(parts, ";")
}

// ---- independent oracle: Go's promotion rule applied to serial names

type cand struct {
	name   string
	route  []int
	t      reflect.Type
	tagged bool
	omit   bool
}

func specLower(s string) string {
	if s == "" {
		return s
	}
	r, size := utf8.DecodeRuneInString(s)
	if !unicode.IsUpper(r) {
		return s
	}
	return string(unicode.ToLower(r)) + s[size:]
}

func specValidTag(s string) bool {
	if s == "" {
		return false
	}
	for _, c := range s {
		if strings.ContainsRune("!#$%&()*+-./:<=>?@[]^_{|}~ ", c) {
			continue
		}
		if !unicode.IsLetter(c) && !unicode.IsDigit(c) {
			return false
		}
	}
	return true
}

func specCandidates(t reflect.Type, route []int, path map[reflect.Type]bool, out *[]cand) {
	if path[t] {
		return
	}
	path[t] = true
	defer delete(path, t)
	for i := 0; i < t.NumField(); i++ {
		sf := t.Field(i)
		ft := sf.Type
		if ft.Kind() == reflect.Ptr {
			ft = ft.Elem()
		}
		if sf.Anonymous {
			if sf.PkgPath != "" && ft.Kind() != reflect.Struct {
				continue
			}
		} else if sf.PkgPath != "" {
			continue
		}
		tag := sf.Tag.Get("refmt")
		if tag == "-" {
			continue
		}
		name, opts := tag, ""
		if k := strings.Index(tag, ","); k >= 0 {
			name, opts = tag[:k], tag[k+1:]
		}
		if !specValidTag(name) {
			name = ""
		}
		r := append(append([]int{}, route...), i)
		if name == "" && sf.Anonymous && ft.Kind() == reflect.Struct {
			specCandidates(ft, r, path, out)
			continue
		}
		if sf.PkgPath != "" {
			continue // an unexported field (here: a tagged embedded field of unexported struct type) is never mapped
		}
		omit := false
		for _, o := range strings.Split(opts, ",") {
			if o == "omitempty" {
				omit = true
			}
		}
		tagged := name != ""
		if name == "" {
			name = specLower(sf.Name)
		}
		*out = append(*out, cand{name, r, sf.Type, tagged, omit})
	}
}

// promotionSpec: name -> selected candidate
func promotionSpec(t reflect.Type) []cand {
	var cs []cand
	specCandidates(t, nil, map[reflect.Type]bool{}, &cs)
	byName := map[string][]cand{}
	for _, c := range cs {
		byName[c.name] = append(byName[c.name], c)
	}
	var names []string
	for n := range byName {
		names = append(names, n)
	}
	sort.Strings(names)
	var out []cand
	for _, n := range names {
		g := byName[n]
		min := len(g[0].route)
		for _, c := range g {
			if len(c.route) < min {
				min = len(c.route)
			}
		}
		var top, tagged []cand
		for _, c := range g {
			if len(c.route) == min {
				top = append(top, c)
				if c.tagged {
					tagged = append(tagged, c)
				}
			}
		}
		switch {
		case len(tagged) == 1:
			out = append(out, tagged[0])
		case len(tagged) == 0 && len(top) == 1:
			out = append(out, top[0])
		}
	}
	return out
}

func showCands(cs []cand) string {
	if len(cs) == 0 {
		return "-"
	}
	parts := make([]string, len(cs))
	for i, c := range cs {
		parts[i] = fmt.Sprintf("%x:%s:%d:%s", c.name, routeStr(atlas.ReflectRoute(c.route)), tid(c.t), b01(c.omit))
	}
	return strings.Join(parts, ";")
}

func sortedFieldSet(s string) string {
	if s == "-" {
		return s
	}
	p := strings.Split(s, ";")
	sort.Strings(p)
	return strings.Join(p, ";")
}

// autogen <tid> <mode>
func opAutogen(p []string, otherKeyFirst bool) string {
	id, _ := strconv.Atoi(p[0])
	t := typeByID[id]
	var e *atlas.AtlasEntry
	_, panicked := safely(func() error {
		if otherKeyFirst {
			// the same type mapped through ANOTHER tag key first (as a program that also serves encoding/json tags would):
			// the refmt mapping asked for afterwards must not depend on that
			atlas.AutogenerateStructMapEntryUsingTags(t, "json", sortMode(p[1]))
		}
		e = atlas.AutogenerateStructMapEntryUsingTags(t, "refmt", sortMode(p[1]))
		return nil
	})
	if panicked {
		return "I=panic O=viol:panic"
	}
	got := showFields(e.StructMap.Fields)
	want := showCands(promotionSpec(t))
	oracle := "ok"
	if sortedFieldSet(got) != sortedFieldSet(want) {
		oracle = "viol:differs-from-promotion-rule:" + sortedFieldSet(want)
	} else {
		// every entry must address the Go field it was derived from
		for _, f := range e.StructMap.Fields {
			sf := t.FieldByIndex(f.ReflectRoute)
			if sf.Type != f.Type {
				oracle = "viol:route-addresses-wrong-field"
			}
		}
	}
	return "I=" + got + " O=" + oracle
}
