package main

import (
	"bytes"
	"fmt"
	"io/ioutil"
	"reflect"
	"runtime"
	"runtime/debug"
	"strconv"
	"strings"

	"github.com/polydawn/refmt/cbor"
	"github.com/polydawn/refmt/json"
	"github.com/polydawn/refmt/obj"
	"github.com/polydawn/refmt/pretty"
	"github.com/polydawn/refmt/shared"
	"github.com/polydawn/refmt/tok"
)

// countingSource counts Step calls of a token source.
type countingSource struct {
	src   shared.TokenSource
	steps int
	cap   int
}

func (c *countingSource) Step(t *tok.Token) (bool, error) {
	c.steps++
	if c.steps > c.cap {
		return true, fmt.Errorf("step cap exceeded")
	}
	return c.src.Step(t)
}

const allocCap = 33554432

// untrusted <fmt> <aid> <tid> <hex>: Unmarshal arbitrary bytes; count decoder steps; measure allocation;
// then stream the same bytes from the decoder into each encoder.
func opUntrusted(p []string) string {
	a := atlasByID(p[1])
	id, _ := strconv.Atoi(p[2])
	t := typeByID[id]
	data, err := parseHexOrDash(p[3])
	if err != nil {
		return "bad-op"
	}
	mkDec := func() shared.TokenSource {
		if p[0] == "cbor" {
			return cbor.NewDecoder(cbor.DecodeOptions{}, bytes.NewBuffer(data))
		}
		return json.NewDecoder(bytes.NewBuffer(data))
	}
	stepCap := 2*len(data) + 2
	cs := &countingSource{src: mkDec(), cap: stepCap + 1}
	dst := reflect.New(t)
	u := obj.NewUnmarshaller(a.atl)
	class := "ok"
	oracle := "ok"
	old := debug.SetGCPercent(-1)
	var m0, m1 runtime.MemStats
	runtime.ReadMemStats(&m0)
	berr, bp := safeBindU(u, dst.Interface())
	var perr error
	var pp bool
	if !bp && berr == nil {
		perr, pp = safePump(shared.TokenPump{TokenSource: cs, TokenSink: u})
	}
	runtime.ReadMemStats(&m1)
	debug.SetGCPercent(old)
	alloc := m1.TotalAlloc - m0.TotalAlloc
	switch {
	case bp || pp:
		class, oracle = "panic", "viol:panic"
	case berr != nil:
		class = "err"
	case perr != nil:
		class = "err"
	}
	if cs.steps > stepCap {
		oracle = "viol:more-token-steps-than-linear-in-the-input"
	}
	limit := uint64(2*allocCap + (1 << 20) + 16384*len(data))
	if p[0] == "cbor" && len(data) > 1000 && (data[0] == 0x5f || data[0] == 0x7f) {
		// one chunked string, however many hunks it is cut into: what is allocated follows the input (amortised growth),
		// not the square of the number of hunks
		limit = uint64((1 << 20) + 64*len(data))
	}
	if alloc > limit && oracle == "ok" {
		oracle = fmt.Sprintf("viol:allocated-%d-bytes-for-%d-bytes-of-input", alloc, len(data))
	}
	// decoder -> every encoder
	if oracle == "ok" {
		for _, sink := range []shared.TokenSink{cbor.NewEncoder(ioutil.Discard), json.NewEncoder(ioutil.Discard, json.EncodeOptions{}), pretty.NewEncoder(ioutil.Discard)} {
			c2 := &countingSource{src: mkDec(), cap: stepCap + 1}
			_, pn := safePump(shared.TokenPump{TokenSource: c2, TokenSink: sink})
			if pn {
				oracle = "viol:panic-in-transcoding-pump"
			} else if c2.steps > stepCap {
				oracle = "viol:more-token-steps-than-linear-in-the-input"
			}
		}
	}
	return fmt.Sprintf("I=%s n=%d a=%d O=%s", class, cs.steps, alloc, oracle)
}

func genUntrusted(tier string, seed uint64) {
	emitDefs()
	r := &rng{s: seed}
	var targets []reflect.Type
	for _, v := range []interface{}{int(0), "", []byte{}, []int{}, [2]string{}, map[string]int{}, map[string]interface{}{}, Inner{}, WithPtr{}, Rec{}, Tagged{},
		HasShape{}, TrNum(0), MapKeyed{}, (*Inner)(nil), []interface{}{}, Arr4{}, MapInt{}, StrMap{}, NoAtlas{}, EmbPtr{}} {
		targets = append(targets, reflect.TypeOf(v))
	}
	targets = append(targets, reflect.TypeOf((*interface{})(nil)).Elem(), reflect.TypeOf((*Shape)(nil)).Elem())
	emitU := func(f string, b []byte) {
		t := targets[r.intn(len(targets))]
		emit("untrusted %s %d %d %s", f, []int{0, 1, 2, 3, 4}[r.intn(5)], tid(t), hexOrDash(b))
	}
	n := 6000
	if tier == "thorough" {
		n = 1000000
	}
	for i := 0; i < n; i++ {
		switch r.intn(6) {
		case 0: // random bytes
			b := make([]byte, r.intn(24))
			for j := range b {
				b[j] = byte(r.next())
			}
			emitU([]string{"cbor", "json"}[r.intn(2)], b)
		case 1, 2: // structure-biased CBOR, possibly truncated / mutated
			var item []byte
			genItem(r, r.intn(6), &item, false)
			if r.chance(1, 3) && len(item) > 0 {
				item[r.intn(len(item))] = cborAlphabet[r.intn(len(cborAlphabet))]
			}
			if r.chance(1, 5) && len(item) > 1 {
				item = item[:r.intn(len(item))]
			}
			emitU("cbor", item)
		default:
			var sb bytes.Buffer
			var s2 = &sb
			_ = s2
			var str = new(stringsBuilder)
			randJSON(r, r.intn(6), &str.b)
			doc := []byte(str.b.String())
			if r.chance(1, 3) && len(doc) > 0 {
				doc[r.intn(len(doc))] = jsonAlphabet[r.intn(len(jsonAlphabet))]
			}
			if r.chance(1, 5) && len(doc) > 1 {
				doc = doc[:r.intn(len(doc))]
			}
			emitU("json", doc)
		}
	}
	// type-directed inputs: what the marshaller produces for values of many target types, altered at token level (entries
	// repeated, unknown and IGNORED keys inserted at every position, tokens dropped or replaced, lengths changed, cut
	// short), then encoded; the unmarshal machines get far into such inputs before anything is wrong with them
	nper := 3
	if tier == "thorough" {
		nper = 150
	}
	var typed []reflect.Type
	for _, v := range []interface{}{Inner{}, WithPtr{}, Emb{}, EmbPtr{}, Rec{}, Tagged{}, OmitAll{}, Nums{}, HasShape{}, MapKeyed{}, TwoMaps{}, StrMap{}, Blob{}, PaySum{},
		Narrow{}, []Shape{}, map[string]Shape{}, []interface{}{}, map[string]interface{}{}, map[KeyStruct]string{}, []TrNum{}, (***Inner)(nil), [2]TrMap{}, Wide{}, [2]MyByte{}, Arr4{}, [3]byte{}, []MyByte{}, [2][]byte{}, map[TrKey]int{}, TrIn{}} {
		typed = append(typed, reflect.TypeOf(v))
	}
	for _, aid := range []int{1, 2, 3, 4} {
		for _, t := range typed {
			if aid == 4 && t == reflect.TypeOf(Emb{}) || aid != 4 && t == reflect.TypeOf(EmbPtr{}) {
				continue
			}
			for i := 0; i < nper; i++ {
				vd := genValue(r, t, genOpts{depth: 1 + r.intn(3), roundtrip: true, tagged: aid == 2 || aid == 3, cbor: true, jsonSafe: i%2 == 1})
				res := opMarshal([]string{fmt.Sprint(aid), fmt.Sprint(tid(t)), "0", vd})
				f := strings.TrimPrefix(strings.Split(res, " ")[0], "I=")
				if !strings.HasSuffix(f, "/ok") {
					continue
				}
				toks := strings.Split(strings.TrimSuffix(f, "/ok"), ",")
				if len(toks) > 0 && toks[len(toks)-1] == "" {
					toks = toks[:len(toks)-1]
				}
				if len(toks) == 0 || len(toks) > 60 {
					continue
				}
				variants := [][]string{toks}
				for m := 0; m < 3; m++ {
					if mt := mutateToks(r, toks); len(mt) > 0 && len(mt) <= 120 {
						variants = append(variants, mt)
					}
				}
				if aid == 3 && t == reflect.TypeOf(Emb{}) {
					variants = append(variants, insertEntries(toks, "s6c6567616379", ignoredValues)...)
				}
				for _, v := range variants {
					ts, err := parseToks(strings.Join(v, ","))
					if err != nil {
						continue
					}
					for _, ef := range []string{"cbor", "json"} {
						w := &recordingWriter{}
						runSteps(newEncoder(ef, w, json.EncodeOptions{}), ts)
						var b []byte
						for _, c := range w.calls {
							b = append(b, c...)
						}
						if len(b) > 0 {
							emit("untrusted %s %d %d %s", ef, aid, tid(t), hexOrDash(b))
						}
					}
				}
			}
		}
	}
	// adversarial length headers on every major type, with and without data behind them
	for _, major := range []byte{0x40, 0x60, 0x80, 0xa0, 0xc0} {
		for _, ln := range []uint64{23, 24, 255, 65536, 1 << 20, 33554431, 33554432, 33554433, 1 << 31, 1 << 40, 1<<63 - 1, 1 << 63, 1<<64 - 1} {
			h := headBytes(major, ln, 0)
			for _, t := range targets {
				emit("untrusted cbor 1 %d %s", tid(t), hexOrDash(h))
				emit("untrusted cbor 1 %d %s", tid(t), hexOrDash(append(append([]byte{}, h...), 0x01, 0x02, 0x03)))
			}
			// inside indefinite strings and nested containers
			emitU("cbor", append([]byte{0x5f}, h...))
			emitU("cbor", append([]byte{0x7f}, append(headBytes(0x60, ln, 0), 0x61)...))
			emitU("cbor", append([]byte{0x9f, 0x81}, h...))
		}
	}
	// a non-empty earlier hunk of an indefinite string, then a hunk declaring an adversarial length (sums that wrap)
	for _, ln := range []uint64{1 << 25, 1<<25 + 1, 1 << 31, 1 << 62, 1<<63 - 2, 1<<63 - 1, 1 << 63, 1<<64 - 2, 1<<64 - 1} {
		for _, t := range targets {
			emit("untrusted cbor 1 %d %s", tid(t), hexOrDash(append([]byte{0x7f, 0x61, 0x41}, headBytes(0x60, ln, 0)...)))
			emit("untrusted cbor 1 %d %s", tid(t), hexOrDash(append(append([]byte{0x5f, 0x42, 0x00, 0x01}, headBytes(0x40, ln, 0)...), 0x07, 0xff)))
		}
		emitU("cbor", append([]byte{0x81, 0x7f, 0x62, 0x41, 0x42, 0x60}, headBytes(0x60, ln, 0)...))
		emitU("cbor", append([]byte{0xa1, 0x61, 0x6b, 0x5f, 0x41, 0x09}, headBytes(0x40, ln, 0)...))
	}
	// chunked strings made of very many small hunks
	for _, nh := range []int{1000, 20000} {
		for _, major := range []byte{0x40, 0x60} {
			b := []byte{major | 0x1f}
			for i := 0; i < nh; i++ {
				b = append(b, major|2, 0x61, 0x62)
			}
			b = append(b, 0xff)
			emit("untrusted cbor 1 %d %s", tid(reflect.TypeOf((*interface{})(nil)).Elem()), hexOrDash(b))
			emit("untrusted cbor 1 %d %s", tid(reflect.TypeOf([]byte{})), hexOrDash(b))
			emit("untrusted cbor 1 %d %s", tid(reflect.TypeOf("")), hexOrDash(b))
		}
	}
	// containers that declare far more entries than the input holds, nested: allocation must follow the input, not the claims
	for _, d := range []int{1, 2, 16, 256} {
		for _, h := range [][]byte{{0x99, 0xff, 0xff}, {0xb9, 0xff, 0xff}, {0x9a, 0x00, 0x00, 0xff, 0xff}, {0x9b, 0, 0, 0, 0, 0, 0, 0xff, 0xff}, {0x98, 0xff}} {
			item := bytes.Repeat(h, d)
			if h[0] == 0xb9 {
				item = bytes.Repeat(append(append([]byte{}, h...), 0x61, 0x6b), d)
			}
			for _, t := range targets {
				k := t.Kind()
				if k == reflect.Interface || k == reflect.Slice || k == reflect.Map || d == 1 {
					emit("untrusted cbor 1 %d %s", tid(t), hexOrDash(item))
				}
			}
		}
	}
	// deep nesting
	for _, d := range []int{1000, 20000} {
		emitU("cbor", bytes.Repeat([]byte{0x81}, d))
		emitU("cbor", append(bytes.Repeat([]byte{0x9f}, d), bytes.Repeat([]byte{0xff}, d)...))
		emitU("json", bytes.Repeat([]byte{'['}, d))
		emitU("json", append(bytes.Repeat([]byte{'['}, d), bytes.Repeat([]byte{']'}, d)...))
		emitU("json", bytes.Repeat([]byte(`{"a":`), d))
		emit("untrusted cbor 1 %d %s", tid(reflect.TypeOf(Rec{})), hexOrDash(bytes.Repeat([]byte{0xa1, 0x64, 'n', 'e', 'x', 't'}, d/10)))
	}
}

type stringsBuilder struct{ b strings.Builder }
