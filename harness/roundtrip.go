package main

import (
	"fmt"
	"reflect"
	"strconv"
	"strings"

	"github.com/polydawn/refmt"
	"github.com/polydawn/refmt/cbor"
	"github.com/polydawn/refmt/json"
)

func safely(f func() error) (err error, panicked bool) {
	defer func() {
		if r := recover(); r != nil {
			panicked = true
		}
	}()
	return f(), false
}

// roundtrip <fmt> <aid> <tid> <line> <indent> <val>
func opRoundtrip(p []string) string {
	a := atlasByID(p[1])
	id, _ := strconv.Atoi(p[2])
	t := typeByID[id]
	rv, err := buildValue(t, p[5])
	if err != nil {
		return "bad-op " + err.Error()
	}
	var eopts refmt.EncodeOptions = cbor.EncodeOptions{}
	var dopts refmt.DecodeOptions = cbor.DecodeOptions{}
	if p[0] == "json" {
		eopts = parseJSONOpts(p[3], p[4])
		dopts = json.DecodeOptions{}
	}
	// marshal through a pointer so that interface-kinded roots keep their declared type
	src := reflect.New(t)
	src.Elem().Set(rv)
	var bs []byte
	merr, mp := safely(func() error {
		var e error
		bs, e = refmt.MarshalAtlased(eopts, src.Interface(), a.atl)
		return e
	})
	if mp {
		return "I=-/-/panic O=viol:panic-in-marshal"
	}
	if merr != nil {
		return "I=-/-/err O=ok"
	}
	dst := reflect.New(t)
	uerr, up := safely(func() error { return refmt.UnmarshalAtlased(dopts, bs, dst.Interface(), a.atl) })
	if up {
		return fmt.Sprintf("I=%s/-/panic O=viol:panic-in-unmarshal", hexOrDash(bs))
	}
	if uerr != nil {
		return fmt.Sprintf("I=%s/-/err O=ok", hexOrDash(bs))
	}
	return fmt.Sprintf("I=%s/%s/ok O=ok", hexOrDash(bs), dumpValue(dst.Elem()))
}

// types whose values the round-trip property quantifies over, per atlas
func roundtripTypes(a *atlasCfg) []reflect.Type {
	var out []reflect.Type
	for _, t := range rootTypes() {
		k := t.Kind()
		if k == reflect.Func || k == reflect.Chan || k == reflect.Complex64 {
			continue
		}
		out = append(out, t)
	}
	return out
}

func genRoundtrip(tier string, seed uint64) {
	emitDefs()
	r := &rng{s: seed}
	n := 25
	if tier == "thorough" {
		n = 800
	}
	for _, a := range atlases {
		for _, t := range roundtripTypes(a) {
			for i := 0; i < n; i++ {
				for _, f := range []string{"cbor", "json"} {
					o := genOpts{depth: 1 + r.intn(4), jsonSafe: f == "json", roundtrip: true, tagged: a.id == 2 || a.id == 3, cbor: f == "cbor"}
					v := genValue(r, t, o)
					ln, ind := "nil", "-"
					if f == "json" {
						op := jsonLineOpts[r.intn(len(jsonLineOpts))]
						ln, ind = op[0], op[1]
					}
					emit("roundtrip %s %d %d %s %s %s", f, a.id, tid(t), ln, ind, v)
				}
			}
		}
	}
	_ = strings.Join
}
