package main

import (
	"bytes"
	"fmt"
	"reflect"
	"strconv"
	"strings"

	"github.com/polydawn/refmt"
	"github.com/polydawn/refmt/cbor"
	"github.com/polydawn/refmt/json"
)

func safely(f func() error) (err error, panicked bool) {
	defer func() {
		if r := recover(); r != nil {
			panicked = true
		}
	}()
	return f(), false
}

// roundtrip <fmt> <aid> <tid> <line> <indent> <val>
func opRoundtrip(p []string) string {
	a := atlasByID(p[1])
	id, _ := strconv.Atoi(p[2])
	t := typeByID[id]
	rv, err := buildValue(t, p[5])
	if err != nil {
		return "bad-op " + err.Error()
	}
	var eopts refmt.EncodeOptions = cbor.EncodeOptions{}
	var dopts refmt.DecodeOptions = cbor.DecodeOptions{}
	if p[0] == "json" {
		eopts = parseJSONOpts(p[3], p[4])
		dopts = json.DecodeOptions{}
	}
	// marshal through a pointer so that interface-kinded roots keep their declared type
	src := reflect.New(t)
	src.Elem().Set(rv)
	var bs []byte
	merr, mp := safely(func() error {
		var e error
		bs, e = refmt.MarshalAtlased(eopts, src.Interface(), a.atl)
		return e
	})
	if mp {
		return "I=-/-/panic O=viol:panic-in-marshal"
	}
	if merr != nil {
		return "I=-/-/err O=ok"
	}
	// the other roads to the same bytes: a long-lived Marshaller writing to a sink that offers nothing but Write, and
	// (with an atlas that has no entries) the helpers that take no atlas at all; they must all agree with the one above
	{
		pw := &plainWriter{}
		e2, p2 := safely(func() error { return refmt.NewMarshallerAtlased(eopts, pw, a.atl).Marshal(src.Interface()) })
		if p2 || e2 != nil || !bytes.Equal(pw.b, bs) {
			return fmt.Sprintf("I=%s/-/err O=viol:marshaller-into-a-plain-writer-differs:%s", hexOrDash(bs), hexOrDash(pw.b))
		}
		if a.id == 0 {
			var hb []byte
			e3, p3 := safely(func() error {
				var e error
				if p[0] == "json" {
					hb, e = refmt.Marshal(eopts, src.Interface())
				} else {
					hb, e = cbor.Marshal(src.Interface())
				}
				return e
			})
			if p3 || e3 != nil || !bytes.Equal(hb, bs) {
				return fmt.Sprintf("I=%s/-/err O=viol:atlas-less-helper-differs:%s", hexOrDash(bs), hexOrDash(hb))
			}
		}
	}
	dst := reflect.New(t)
	uerr, up := safely(func() error { return refmt.UnmarshalAtlased(dopts, bs, dst.Interface(), a.atl) })
	if up {
		return fmt.Sprintf("I=%s/-/panic O=viol:panic-in-unmarshal", hexOrDash(bs))
	}
	if uerr != nil {
		return fmt.Sprintf("I=%s/-/err O=ok", hexOrDash(bs))
	}
	return fmt.Sprintf("I=%s/%s/ok O=ok", hexOrDash(bs), dumpValue(dst.Elem()))
}

// plainWriter offers Write and nothing else
type plainWriter struct{ b []byte }

func (w *plainWriter) Write(p []byte) (int, error) { w.b = append(w.b, p...); return len(p), nil }

// types whose values the round-trip property quantifies over, per atlas
func roundtripTypes(a *atlasCfg) []reflect.Type {
	var out []reflect.Type
	for _, t := range rootTypes() {
		k := t.Kind()
		if k == reflect.Func || k == reflect.Chan || k == reflect.Complex64 {
			continue
		}
		out = append(out, t)
	}
	return out
}

func genRoundtrip(tier string, seed uint64) {
	emitDefs()
	r := &rng{s: seed}
	n := 25
	if tier == "thorough" {
		n = 2500
	}
	for _, a := range zooAtlases() {
		for _, t := range roundtripTypes(a) {
			for i := 0; i < n; i++ {
				for _, f := range []string{"cbor", "json"} {
					o := genOpts{depth: 1 + r.intn(4), jsonSafe: f == "json", roundtrip: true, tagged: a.id == 2 || a.id == 3, cbor: f == "cbor"}
					v := genValue(r, t, o)
					ln, ind := "nil", "-"
					if f == "json" {
						op := jsonLineOpts[r.intn(len(jsonLineOpts))]
						ln, ind = op[0], op[1]
					}
					emit("roundtrip %s %d %d %s %s %s", f, a.id, tid(t), ln, ind, v)
				}
			}
		}
	}
	// deep nesting (past the initial capacities of every stack in the codecs and the object layer), both formats, with
	// and without indentation
	for _, d := range []int{9, 17, 31, 33, 64, 65, 100} {
		for _, dv := range deepValues(d) {
			for _, aid := range []int{1, 3} {
				emit("roundtrip cbor %d %d nil - %s", aid, tid(dv.t), dv.vd)
				emit("roundtrip json %d %d nil - %s", aid, tid(dv.t), dv.vd)
				emit("roundtrip json %d %d 0a 09 %s", aid, tid(dv.t), dv.vd)
			}
		}
	}
	_ = strings.Join
}

// unmbytes <fmt> <aid> <tid> <hex>: Unmarshal foreign bytes into a fresh variable of the type
func opUnmBytes(p []string) string {
	a := atlasByID(p[1])
	id, _ := strconv.Atoi(p[2])
	t := typeByID[id]
	data, err := parseHexOrDash(p[3])
	if err != nil {
		return "bad-op"
	}
	var dopts refmt.DecodeOptions = cbor.DecodeOptions{}
	if p[0] == "json" {
		dopts = json.DecodeOptions{}
	}
	dst := reflect.New(t)
	uerr, up := safely(func() error { return refmt.UnmarshalAtlased(dopts, data, dst.Interface(), a.atl) })
	if up {
		return "I=-/panic O=viol:panic"
	}
	if uerr != nil {
		return "I=-/err O=ok"
	}
	return fmt.Sprintf("I=%s/ok O=%s", dumpValue(dst.Elem()), numOracle(p[0], data, dst.Elem()))
}

func genTags(tier string, seed uint64) {
	emitDefs()
	r := &rng{s: seed}
	n := 60
	if tier == "thorough" {
		n = 8000
	}
	var ts []reflect.Type
	for _, v := range []interface{}{Inner{}, (*Inner)(nil), (***Inner)(nil), []*Inner{}, WithPtr{}, Emb{}, HasShape{}, []Shape{}, TrNum(0), []TrNum{},
		[2]TrBytes{}, map[string]*Rec{}, []interface{}{}, map[string]interface{}{}, Circle{}, map[TrNum]int{}, TrSq{}, []TrSq{}, map[string]TrSq{}, TrOpt{}, []TrOpt{}, []TrMap{}, Digest{}, []Digest{}, TwoTr{}} {
		ts = append(ts, reflect.TypeOf(v))
	}
	ts = append(ts, reflect.TypeOf((*interface{})(nil)).Elem())
	for _, aid := range []int{2, 3} {
		for _, t := range ts {
			for i := 0; i < n; i++ {
				v := genValue(r, t, genOpts{depth: 2 + r.intn(3), roundtrip: true, tagged: true, cbor: true})
				emit("roundtrip cbor %d %d nil - %s", aid, tid(t), v)
			}
		}
	}
	// several values of ONE tagged type that holds maps, side by side in untyped containers: each is built afresh
	{
		tm := tid(reflect.TypeOf(TwoMaps{}))
		sl := tid(reflect.TypeOf([]interface{}{}))
		mp := tid(reflect.TypeOf(map[string]interface{}{}))
		vs := []string{"S(M{s61=i1},M{s61=i2},n)", "S(M{s61=i3,s62=i4},M{s62=i5},M{s7a=i6})", "S(n,M{s61=i7},n)", "S(M{s61=i8},n,M{s61=i9})"}
		for _, aid := range []int{2, 3} {
			for i := range vs {
				for j := range vs {
					emit("roundtrip cbor %d %d nil - [I%d:%s,I%d:%s]", aid, sl, tm, vs[i], tm, vs[j])
					emit("roundtrip cbor %d %d nil - [I%d:%s,I%d:%s,I%d:%s]", aid, sl, tm, vs[i], tm, vs[j], tm, vs[i])
					emit("roundtrip cbor %d %d nil - M{s6b31=I%d:%s,s6b32=I%d:%s}", aid, mp, tm, vs[i], tm, vs[j])
				}
			}
		}
	}
	// a tagged map with transformed keys, then plain maps, inside one untyped container (and the other way round)
	{
		sl := tid(reflect.TypeOf([]interface{}{}))
		km := "d81fa163611f6201"
		for _, aid := range []int{2, 3} {
			for _, tail := range []string{"a1616202", "a163781f7902", "a163782f7902", "a0", "a26161016162a1616302"} {
				emit("unmbytes cbor %d %d 82%s%s", aid, sl, km, tail)
				emit("unmbytes cbor %d %d 82%s%s", aid, sl, tail, km)
				emit("unmbytes cbor %d %d 83%s%s%s", aid, sl, km, tail, km)
			}
		}
	}
	// a tagged transform whose serial form is a LONG composite (the tag belongs on its first token only), at top level and
	// inside untyped slots
	{
		comp := reflect.TypeOf(TrComp{})
		sl := reflect.TypeOf([]interface{}{})
		for _, n := range []int{2, 127, 128, 129, 255, 256, 257, 300, 600} {
			var parts []string
			for i := 0; i < n; i++ {
				parts = append(parts, fmt.Sprintf("i%d", i%7))
			}
			v := "S([" + strings.Join(parts, ",") + "])"
			for _, aid := range []int{1, 2, 3} {
				emit("roundtrip cbor %d %d nil - %s", aid, tid(comp), v)
				if aid != 1 {
					emit("roundtrip cbor %d %d nil - [I%d:%s,I%d:%s]", aid, tid(sl), tid(comp), v, tid(comp), v)
				}
			}
		}
	}
	// foreign CBOR: registered and unregistered tags on every item kind, into an untyped slot and into typed slots
	items := []string{"00", "20", "40", "4101", "60", "6161", "623432", "80", "8101", "a0", "a1617801", "a26178016179616b", "f4", "f6", "fb3ff8000000000000", "9fff", "bfff", "420102", "a1617360", "a161736161"}
	tags := []uint64{0, 1, 2, 3, 21, 23, 24, 25, 32, 42, 100, 255, 256, 258, 1100, 2100, 3100, 55799, 55800, 65535, 65536, 1 << 32, 1<<63 - 1, 1<<64 - 1}
	ifaceT := tid(reflect.TypeOf((*interface{})(nil)).Elem())
	for _, aid := range []int{0, 1, 2, 3} {
		for _, tg := range tags {
			for _, it := range items {
				hx := fmt.Sprintf("%x", headBytes(0xc0, tg, 0)) + it
				emit("unmbytes cbor %d %d %s", aid, ifaceT, hx)
				emit("unmbytes cbor %d %d %s", aid, tid(reflect.TypeOf([]interface{}{})), "81"+hx)
				emit("unmbytes cbor %d %d %s", aid, tid(reflect.TypeOf(map[string]interface{}{})), "a1616b"+hx)
				emit("unmbytes cbor %d %d %s", aid, tid(reflect.TypeOf(Inner{})), hx)
				emit("unmbytes cbor %d %d %s", aid, tid(reflect.TypeOf(TrNum(0))), hx)
				emit("unmbytes cbor %d %d %s", aid, tid(reflect.TypeOf(TrSq{})), hx)
				// inside an indefinite-length array, followed by an untagged item and by a tagged one
				emit("unmbytes cbor %d %d 9f%s%sff", aid, ifaceT, hx, it)
				emit("unmbytes cbor %d %d 9f%s%sff", aid, tid(reflect.TypeOf([]interface{}{})), hx, hx)
				emit("unmbytes cbor %d %d bf6161%s6162%sff", aid, ifaceT, hx, it)
			}
		}
	}
}
