package main

import (
	"fmt"
	"strings"
)

// schedules for n bytes: every composition of n (2^(n-1) of them) as chunk sizes
func allSplits(n int, f func([]int)) {
	if n == 0 {
		f(nil)
		return
	}
	for mask := 0; mask < 1<<(uint(n)-1); mask++ {
		var chunks []int
		c := 1
		for i := 0; i < n-1; i++ {
			if mask&(1<<uint(i)) != 0 {
				chunks = append(chunks, c)
				c = 1
			} else {
				c++
			}
		}
		chunks = append(chunks, c)
		f(chunks)
	}
}

func schedStr(c []int) string {
	if len(c) == 0 {
		return "-"
	}
	parts := make([]string, len(c))
	for i, x := range c {
		parts[i] = fmt.Sprint(x)
	}
	return strings.Join(parts, ".")
}

// withZeros inserts up to k empty reads before position pos of the chunk list
func withZeros(c []int, pos, k int) []int {
	out := append([]int{}, c[:pos]...)
	for i := 0; i < k; i++ {
		out = append(out, 0)
	}
	return append(out, c[pos:]...)
}

func randSched(r *rng, n int) []int {
	var c []int
	for left := n; left > 0; {
		if r.chance(1, 6) {
			c = append(c, 0)
			continue
		}
		k := 1 + r.intn(1+r.intn(8))
		if k > left {
			k = left
		}
		c = append(c, k)
		left -= k
	}
	if r.chance(1, 4) {
		c = append(c, 0)
	}
	return c
}

var schedDocs = []struct{ format, hex string }{
	{"json", "7b2261223a5b312c322e352c2278225d7d"}, // {"a":[1,2.5,"x"]}
	{"json", "5b312c32335d20"},                     // [1,23]<sp>
	{"json", "313233"},                             // 123 (number ended by EOF)
	{"json", "31323320"},                           // 123<sp>
	{"json", "22615c75303065395c6e22"},             // "aé\n"
	{"json", "5b6e756c6c2c747275652c66616c73655d"}, // [null,true,false]
	{"json", "6e756c"},                             // nul (truncated)
	{"json", "5b312c"},                             // [1,
	{"json", "7b2261223a317d7b7d"},                 // {"a":1}{}
	{"cbor", "a1616b9f0524c31901f4ff"},
	{"cbor", "826568656c6c6f4401020304"},
	{"cbor", "5f42010243030405ff"},
	{"cbor", "fb3ff8000000000000"},
	{"cbor", "1b0000000100000000"},
	{"cbor", "a1616b9f0524"}, // truncated
	{"cbor", "7f6161"},       // truncated chunk sequence
	{"cbor", "f97e00"},
	{"cbor", "783061616161616161616161616161616161616161616161616161616161616161616161616161616161616161616161616161"},
}

func genSched(tier string, seed uint64) {
	r := &rng{s: seed}
	maxN := 10
	if tier == "thorough" {
		maxN = 14
	}
	for _, d := range schedDocs {
		n := len(d.hex) / 2
		if n <= maxN {
			allSplits(n, func(c []int) {
				emit("sched %s %s %s 0", d.format, d.hex, schedStr(c))
				emit("sched %s %s %s 1", d.format, d.hex, schedStr(c))
			})
		}
		// one-byte-at-a-time and whole, each with up to 3 empty reads at every position
		one := make([]int, n)
		for i := range one {
			one[i] = 1
		}
		for pos := 0; pos <= n; pos++ {
			for k := 1; k <= 3; k++ {
				emit("sched %s %s %s 0", d.format, d.hex, schedStr(withZeros(one, pos, k)))
				emit("sched %s %s %s 1", d.format, d.hex, schedStr(withZeros(one, pos, k)))
			}
		}
		nr := 300
		if tier == "thorough" {
			nr = 15000
		}
		for i := 0; i < nr; i++ {
			emit("sched %s %s %s %d", d.format, d.hex, schedStr(randSched(r, n)), r.intn(2))
		}
	}
	// long items delivered one byte per read with k empty reads before EVERY byte: hundreds of empty reads in
	// total inside one multi-byte read, never more than k in a row
	longDocs := []struct{ format, hex string }{
		{"cbor", "7896" + strings.Repeat("61", 150)},
		{"cbor", "5828" + strings.Repeat("07", 40)},
		{"cbor", "5f583c" + strings.Repeat("01", 60) + "4102ff"},
		{"cbor", "82" + "7830" + strings.Repeat("62", 48) + "7830" + strings.Repeat("63", 48)},
		{"json", "22" + strings.Repeat("61", 150) + "22"},
		{"json", "5b" + strings.Repeat("31", 120) + "5d"},
	}
	for _, d := range longDocs {
		n := len(d.hex) / 2
		for k := 1; k <= 3; k++ {
			var c []int
			for i := 0; i < n; i++ {
				for j := 0; j < k; j++ {
					c = append(c, 0)
				}
				c = append(c, 1)
			}
			emit("sched %s %s %s 0", d.format, d.hex, schedStr(c))
			emit("sched %s %s %s 1", d.format, d.hex, schedStr(c))
		}
	}
	// payloads larger than 64 KiB delivered in 4 KiB chunks with an empty read before every chunk (and whole); headers that
	// announce such payloads with nothing, or only a little, behind them
	for _, n := range []int{65536, 65537, 70000, 1 << 20, 1<<20 + 1, 3<<20 + 5} {
		for _, major := range []byte{0x40, 0x60} {
			if n > 100000 && major == 0x40 {
				continue
			}
			hx := fmt.Sprintf("%x", headBytes(major, uint64(n), 0)) + strings.Repeat("61", n)
			var c []int
			for left := n + 5; left > 0; left -= 4096 {
				c = append(c, 0, 4096)
			}
			emit("sched cbor %s %s 0", hx, schedStr(c))
			emit("sched cbor %s %s 1", hx, schedStr(c))
			emit("schedb cbor %s %s 0", hx, schedStr(c))
			emit("sched cbor %s 3.0.1.0.1.0.%d.0.0.%d 0", hx, n/2, n)
		}
	}
	for _, hx := range []string{"7a00010001", "7a00100000", "5a00010001", "7a0001000161", "5a00100000010203", "827a00010001", "7b0000000000010001", "7a02000000", "7a02000001"} {
		n := len(hx) / 2
		allSplits(n, func(c []int) {
			emit("sched cbor %s %s 0", hx, schedStr(c))
			emit("sched cbor %s %s 1", hx, schedStr(c))
		})
		emit("schedb cbor %s - 0", hx)
		emit("schedk cbor %s - 0", hx)
	}
	// a long run of empty reads strictly INSIDE a multi-byte payload (after its first byte has arrived): the bulk
	// read keeps waiting for the rest, it neither gives up with partial data nor reports an error
	for _, hx := range []string{"1b0102030405060708", "190102", "1a01020304", "3b0000000000000122", "fb400921fb54442d18", "fa40490fdb",
		"4501020304 05", "65 68656c6c6f", "5f43010203ff", "c11a514b67b0"} {
		hx = strings.ReplaceAll(hx, " ", "")
		n := len(hx) / 2
		for _, zeros := range []int{99, 101, 150} {
			c := []int{1, 1}
			for i := 0; i < zeros; i++ {
				c = append(c, 0)
			}
			for i := 2; i < n; i++ {
				c = append(c, 1)
			}
			emit("sched cbor %s %s 0", hx, schedStr(c))
		}
	}
	for _, d := range []struct{ format, hex string }{{"json", "5b312c747275655d"}, {"cbor", "8201f5"}, {"json", "7b226b223a317d"}, {"cbor", "a1616b01"}} {
		n := len(d.hex) / 2
		for pos := 0; pos < n; pos++ {
			for _, zeros := range []int{99, 100} {
				var c []int
				for i := 0; i < n; i++ {
					if i == pos {
						for j := 0; j < zeros; j++ {
							c = append(c, 0)
						}
					}
					c = append(c, 1)
				}
				emit("sched %s %s %s 0", d.format, d.hex, schedStr(c))
				// the same through an already buffered reader handed to the decoder
				emit("schedb %s %s %s 0", d.format, d.hex, schedStr(c))
				emit("schedk %s %s %s 0", d.format, d.hex, schedStr(c))
			}
		}
	}
	// random documents, random schedules
	nd := 3000
	if tier == "thorough" {
		nd = 200000
	}
	for i := 0; i < nd; i++ {
		if r.chance(1, 2) {
			var item []byte
			genItem(r, r.intn(4), &item, false)
			if r.chance(1, 5) && len(item) > 1 {
				item = item[:r.intn(len(item))]
			}
			emit("%s cbor %s %s %d", []string{"sched", "sched", "schedb", "schedk"}[r.intn(4)], hexOrDash(item), schedStr(randSched(r, len(item))), r.intn(2))
		} else {
			var sb strings.Builder
			randJSON(r, r.intn(4), &sb)
			doc := []byte(sb.String())
			if r.chance(1, 5) && len(doc) > 1 {
				doc = doc[:r.intn(len(doc))]
			}
			emit("%s json %s %s %d", []string{"sched", "sched", "schedb", "schedk"}[r.intn(4)], hexOrDash(doc), schedStr(randSched(r, len(doc))), r.intn(2))
		}
	}
}

func genRdOps(tier string, seed uint64) {
	r := &rng{s: seed}
	n := 20000
	if tier == "thorough" {
		n = 1500000
	}
	for i := 0; i < n; i++ {
		dl := r.intn(12)
		data := make([]byte, dl)
		for j := range data {
			data[j] = byte(1 + r.intn(255))
		}
		var ops []string
		canUnread := false
		left := dl // bytes not yet consumed (an unread gives one back)
		for k := 1 + r.intn(8); k > 0; k-- {
			switch x := r.intn(10); {
			case x < 5:
				ops = append(ops, "r")
				canUnread = left > 0 // unread is only legal directly after a successful Readn1
				if left > 0 {
					left--
				}
			case x < 6 && canUnread:
				ops = append(ops, "u")
				canUnread = false
				left++
			case x < 8:
				n := 1 + r.intn(5)
				ops = append(ops, fmt.Sprintf("n%d", n))
				canUnread = false
				if left >= n {
					left -= n
				} else {
					left = 0
				}
			default:
				n := 1 + r.intn(5)
				ops = append(ops, fmt.Sprintf("z%d", n))
				canUnread = false
				if left >= n {
					left -= n
				} else {
					left = 0
				}
			}
		}
		emit("rdops %s %s %d %s", hexOrDash(data), schedStr(randSched(r, dl)), r.intn(2), strings.Join(ops, ","))
	}
	// exhaustive small: 3 bytes of data, all splits, short op sequences
	for _, ops := range []string{"r,r,r,r", "r,u,r,r,r,r", "n2,r,r", "r,u,n3,r", "r,n2,r", "n3,r", "z1,r,u,n2,r", "r,u,r,u,r,u,n4", "n4", "r,r,n2"} {
		allSplits(3, func(c []int) {
			for pos := 0; pos <= len(c); pos++ {
				for e := 0; e < 2; e++ {
					emit("rdops 0a0b0c %s %d %s", schedStr(withZeros(c, pos, 2)), e, ops)
				}
			}
		})
	}
}
