package main

import (
	"bytes"
	"fmt"
	"io"
	"strings"

	"github.com/polydawn/refmt/cbor"
	"github.com/polydawn/refmt/json"
	"github.com/polydawn/refmt/tok"
)

var errInjected = fmt.Errorf("injected fault")

// a reader's own failure that happens to WRAP io.EOF (it is still not a clean end of input)
var errInjectedEOF = fmt.Errorf("injected fault: connection lost: %w", io.EOF)

func errClass(err error) string {
	switch {
	case err == nil:
		return "ok"
	case err == io.EOF:
		return "eof"
	case err == io.ErrUnexpectedEOF:
		return "ueof"
	case err == errInjected, err == errInjectedEOF:
		return "inj"
	}
	return "rej"
}

// copyTok deep-copies the reference fields a decoder may reuse.
func copyTok(t tok.Token) tok.Token {
	if t.Bytes != nil {
		t.Bytes = append([]byte{}, t.Bytes...)
	}
	return t
}

// runDecoder steps a token source until done/error/panic or the step cap.
// Returns tokens, outcome class ("ok", error class, "panic", "loop") and steps taken.
func runDecoder(src stepper, stepCap int) (toks []tok.Token, class string, steps int) {
	var slot tok.Token
	// `held` keeps the tokens exactly as handed out (no copy): a consumer may collect the
	// sequence and look at it later, so a token must not change once a later Step has run.
	var held []tok.Token
	fin := func(class string) ([]tok.Token, string, int) {
		if class != "panic" && showToks(held) != showToks(toks) {
			return held, "alias", steps
		}
		return toks, class, steps
	}
	for steps < stepCap {
		done, err, p := safeStep(src, &slot)
		steps++
		if p {
			return fin("panic")
		}
		if err != nil {
			return fin(errClass(err))
		}
		toks = append(toks, copyTok(slot))
		held = append(held, slot)
		if done {
			return fin("ok")
		}
	}
	return fin("loop")
}

func showDec(toks []tok.Token, rest int, class string) string {
	return fmt.Sprintf("%s/%d/%s", showToks(toks), rest, class)
}

func opCborDec(p []string) string {
	data, err := parseHexOrDash(p[1])
	if err != nil {
		return "bad-op"
	}
	buf := bytes.NewBuffer(data)
	dec := cbor.NewDecoder(cbor.DecodeOptions{CoerceUndefToNull: p[0] == "1"}, buf)
	toks, class, steps := runDecoder(dec, 2*len(data)+8)
	return fmt.Sprintf("I=%s n=%d", showDec(toks, buf.Len(), class), steps)
}

func opCborEncRT(p []string) string {
	ts, err := parseToks(p[0])
	if err != nil {
		return "bad-op"
	}
	fl, w := encodeBoth(func(w io.Writer) stepper { return cbor.NewEncoder(w) }, ts)
	rt := "-"
	if strings.HasSuffix(fl, "D") {
		var all []byte
		for _, c := range w.calls {
			all = append(all, c...)
		}
		buf := bytes.NewBuffer(all)
		dec := cbor.NewDecoder(cbor.DecodeOptions{}, buf)
		toks, class, _ := runDecoder(dec, 2*len(all)+8)
		rt = showDec(toks, buf.Len(), class)
	}
	return "I=" + fl + " W=" + showWrites(w.calls) + " R=" + rt
}

var _ = json.NewDecoder
