package main

// Value descriptors: parse (build a Go value of a given reflect.Type), dump, and type-directed generation.

import (
	"unicode/utf8"
	"encoding/hex"
	"fmt"
	"math"
	"reflect"
	"sort"
	"strconv"
	"strings"
	"unsafe"
)

type vparser struct {
	s string
	i int
}

func (p *vparser) peek() byte {
	if p.i < len(p.s) {
		return p.s[p.i]
	}
	return 0
}
func (p *vparser) until(stop string) string {
	j := p.i
	for j < len(p.s) && !strings.ContainsRune(stop, rune(p.s[j])) {
		j++
	}
	out := p.s[p.i:j]
	p.i = j
	return out
}

const vstop = ",])}="

// build parses one value descriptor into rv (settable, of type t).
func (p *vparser) build(t reflect.Type, rv reflect.Value) error {
	c := p.peek()
	switch c {
	case 'n':
		p.i++
		rv.Set(reflect.Zero(t))
		return nil
	case 'b':
		p.i++
		rv.SetBool(p.peek() == '1')
		p.i++
		return nil
	case 'i':
		p.i++
		v, err := strconv.ParseInt(p.until(vstop), 10, 64)
		rv.SetInt(v)
		return err
	case 'u':
		p.i++
		v, err := strconv.ParseUint(p.until(vstop), 10, 64)
		rv.SetUint(v)
		return err
	case 'f':
		p.i++
		v, err := strconv.ParseUint(p.until(vstop), 16, 64)
		rv.SetFloat(math.Float64frombits(v))
		return err
	case 's':
		p.i++
		b, err := hex.DecodeString(p.until(vstop))
		rv.SetString(string(b))
		return err
	case 'x':
		p.i++
		if p.peek() == 'n' {
			p.i++
			rv.Set(reflect.Zero(t))
			return nil
		}
		b, err := hex.DecodeString(p.until(vstop))
		// with spare capacity, as a buffer that is re-sliced (`buf[:n]`) has
		sl := reflect.MakeSlice(t, len(b), len(b)+4)
		for k := range b {
			sl.Index(k).SetUint(uint64(b[k]))
		}
		rv.Set(sl)
		return err
	case 'X':
		p.i++
		b, err := hex.DecodeString(p.until(vstop))
		for k := 0; k < len(b) && k < rv.Len(); k++ {
			rv.Index(k).SetUint(uint64(b[k]))
		}
		return err
	case '[':
		p.i++
		sl := reflect.MakeSlice(t, 0, 0)
		for p.peek() != ']' {
			e := reflect.New(t.Elem()).Elem()
			if err := p.build(t.Elem(), e); err != nil {
				return err
			}
			sl = reflect.Append(sl, e)
			if p.peek() == ',' {
				p.i++
			}
		}
		p.i++
		rv.Set(sl)
		return nil
	case 'A':
		p.i += 2
		k := 0
		for p.peek() != ']' {
			if err := p.build(t.Elem(), rv.Index(k)); err != nil {
				return err
			}
			k++
			if p.peek() == ',' {
				p.i++
			}
		}
		p.i++
		return nil
	case 'M':
		p.i += 2
		m := reflect.MakeMap(t)
		for p.peek() != '}' {
			k := reflect.New(t.Key()).Elem()
			if err := p.build(t.Key(), k); err != nil {
				return err
			}
			p.i++ // '='
			v := reflect.New(t.Elem()).Elem()
			if err := p.build(t.Elem(), v); err != nil {
				return err
			}
			m.SetMapIndex(k, v)
			if p.peek() == ',' {
				p.i++
			}
		}
		p.i++
		rv.Set(m)
		return nil
	case 'P':
		p.i++
		n := reflect.New(t.Elem())
		if err := p.build(t.Elem(), n.Elem()); err != nil {
			return err
		}
		rv.Set(n)
		return nil
	case 'I':
		p.i++
		id, _ := strconv.Atoi(p.until(":"))
		p.i++
		dt := typeByID[id]
		n := reflect.New(dt).Elem()
		if err := p.build(dt, n); err != nil {
			return err
		}
		rv.Set(n)
		return nil
	case 'S':
		p.i += 2
		k := 0
		for p.peek() != ')' {
			f := rv.Field(k)
			if !f.CanSet() {
				// unexported (e.g. an embedded field of unexported type): build it through its address
				f = reflect.NewAt(f.Type(), unsafe.Pointer(f.UnsafeAddr())).Elem()
			}
			if err := p.build(t.Field(k).Type, f); err != nil {
				return err
			}
			k++
			if p.peek() == ',' {
				p.i++
			}
		}
		p.i++
		return nil
	}
	return fmt.Errorf("bad value descriptor at %d in %q", p.i, p.s)
}

func buildValue(t reflect.Type, desc string) (reflect.Value, error) {
	rv := reflect.New(t).Elem()
	p := &vparser{s: desc}
	err := p.build(t, rv)
	return rv, err
}

// dumpValue renders a Go value as a descriptor (maps in sorted key order).
func dumpValue(v reflect.Value) string {
	t := v.Type()
	switch t.Kind() {
	case reflect.Bool:
		return "b" + b01(v.Bool())
	case reflect.Int, reflect.Int8, reflect.Int16, reflect.Int32, reflect.Int64:
		return "i" + strconv.FormatInt(v.Int(), 10)
	case reflect.Uint, reflect.Uint8, reflect.Uint16, reflect.Uint32, reflect.Uint64, reflect.Uintptr:
		return "u" + strconv.FormatUint(v.Uint(), 10)
	case reflect.Float32, reflect.Float64:
		return fmt.Sprintf("f%016x", math.Float64bits(v.Float()))
	case reflect.String:
		return "s" + hex.EncodeToString([]byte(v.String()))
	case reflect.Slice:
		if t.Elem().Kind() == reflect.Uint8 {
			if v.IsNil() {
				return "xn"
			}
			b := make([]byte, v.Len())
			for i := range b {
				b[i] = byte(v.Index(i).Uint())
			}
			return "x" + hex.EncodeToString(b)
		}
		if v.IsNil() {
			return "n"
		}
		parts := make([]string, v.Len())
		for i := range parts {
			parts[i] = dumpValue(v.Index(i))
		}
		return "[" + strings.Join(parts, ",") + "]"
	case reflect.Array:
		if t.Elem().Kind() == reflect.Uint8 {
			b := make([]byte, v.Len())
			for i := range b {
				b[i] = byte(v.Index(i).Uint())
			}
			return "X" + hex.EncodeToString(b)
		}
		parts := make([]string, v.Len())
		for i := range parts {
			parts[i] = dumpValue(v.Index(i))
		}
		return "A[" + strings.Join(parts, ",") + "]"
	case reflect.Map:
		if v.IsNil() {
			return "n"
		}
		var parts []string
		for _, k := range v.MapKeys() {
			parts = append(parts, dumpValue(k)+"="+dumpValue(v.MapIndex(k)))
		}
		sort.Strings(parts)
		return "M{" + strings.Join(parts, ",") + "}"
	case reflect.Ptr:
		if v.IsNil() {
			return "n"
		}
		return "P" + dumpValue(v.Elem())
	case reflect.Interface:
		if v.IsNil() {
			return "n"
		}
		return fmt.Sprintf("I%d:%s", tid(v.Elem().Type()), dumpValue(v.Elem()))
	case reflect.Struct:
		parts := make([]string, v.NumField())
		for i := range parts {
			parts[i] = dumpValue(v.Field(i))
		}
		return "S(" + strings.Join(parts, ",") + ")"
	}
	return "?"
}

// ---- generation

var boundaryI = []int64{0, 1, -1, 127, 128, -128, -129, 255, 256, 32767, 32768, -32768, 65535, 65536, 1<<31 - 1, 1 << 31, -(1 << 31), 1<<32 - 1,
	1 << 32, 1<<53 + 1, 1<<63 - 1, -(1 << 63)}

func clampInt(k reflect.Kind, v int64) int64 {
	switch k {
	case reflect.Int8:
		return int64(int8(v))
	case reflect.Int16:
		return int64(int16(v))
	case reflect.Int32:
		return int64(int32(v))
	}
	return v
}
func clampUint(k reflect.Kind, v uint64) uint64 {
	switch k {
	case reflect.Uint8:
		return uint64(uint8(v))
	case reflect.Uint16:
		return uint64(uint16(v))
	case reflect.Uint32:
		return uint64(uint32(v))
	}
	return v
}

var genStrings = []string{"", "a", "k", "key", "é", "日本", "a:b", ":", "12", "-7", "x\x00y", "\xff", "tab\t\"q\"", " ", "\U0001F600", "aa", "b", "ab", "abc"}

// ifaceChoices: dynamic types placed in untyped slots (what the property's equality can see through, plus tagged types)
func ifaceChoices(jsonSafe bool) []reflect.Type {
	ts := []reflect.Type{reflect.TypeOf(false), reflect.TypeOf(int(0)), reflect.TypeOf(int64(0)), reflect.TypeOf(uint8(0)), reflect.TypeOf(uint64(0)),
		reflect.TypeOf(float64(0)), reflect.TypeOf(float32(0)), reflect.TypeOf(""), reflect.TypeOf([]interface{}{}), reflect.TypeOf(map[string]interface{}{}),
		reflect.TypeOf(Inner{}), reflect.TypeOf(TrNum(0)), reflect.TypeOf([]string{}), reflect.TypeOf(MyInt(0))}
	if !jsonSafe {
		ts = append(ts, reflect.TypeOf([]byte{}), reflect.TypeOf(TrBytes{}))
	}
	return ts
}

var bigLens = []int{23, 24, 25, 31, 32, 33, 63, 64, 65, 127, 128, 255, 256, 257, 300, 1000}
var bigCounts = []int{16, 17, 23, 24, 25, 32, 33, 64, 65, 100, 128, 255, 256, 257, 300}

type genOpts struct {
	jsonSafe  bool // no byte strings, finite floats, valid UTF-8
	depth     int
	roundtrip bool // untyped slots hold only what the round-trip equality can see through
	tagged    bool // the atlas registers tags (so tagged types may sit in untyped slots, CBOR only)
	cbor      bool
}

func genValue(r *rng, t reflect.Type, o genOpts) string {
	d := o
	d.depth--
	switch t.Kind() {
	case reflect.Bool:
		return "b" + b01(r.chance(1, 2))
	case reflect.Int, reflect.Int8, reflect.Int16, reflect.Int32, reflect.Int64:
		v := boundaryI[r.intn(len(boundaryI))]
		if r.chance(1, 2) {
			v = int64(r.next()>>uint(r.intn(64))) * int64(1-2*r.intn(2))
		}
		return "i" + strconv.FormatInt(clampInt(t.Kind(), v), 10)
	case reflect.Uint, reflect.Uint8, reflect.Uint16, reflect.Uint32, reflect.Uint64, reflect.Uintptr:
		v := boundaryU[r.intn(len(boundaryU))]
		if r.chance(1, 2) {
			v = r.next() >> uint(r.intn(64))
		}
		return "u" + strconv.FormatUint(clampUint(t.Kind(), v), 10)
	case reflect.Float32, reflect.Float64:
		bits := randFloatBits(r)
		f := math.Float64frombits(bits)
		if o.jsonSafe && (math.IsNaN(f) || math.IsInf(f, 0)) {
			f = 1.5
		}
		if t.Kind() == reflect.Float32 {
			f = float64(float32(f))
			if o.jsonSafe && (math.IsNaN(f) || math.IsInf(f, 0)) {
				f = 2.5
			}
		}
		return fmt.Sprintf("f%016x", math.Float64bits(f))
	case reflect.String:
		s := genStrings[r.intn(len(genStrings))]
		if r.chance(1, 150) {
			// long text: lengths around the fixed buffer sizes found in codecs (24, 32, 64, 256, 4 KiB, 64 KiB); ASCII or
			// two-byte characters (so that a character may straddle a buffer boundary)
			n := bigLens[r.intn(len(bigLens))]
			if r.chance(1, 12) {
				n = []int{4095, 4096, 4097, 65535, 65536, 70000}[r.intn(6)]
			}
			unit := []string{"a", "k", "\u00e9", "z\u00e9"}[r.intn(4)]
			s = strings.Repeat(unit, n/len(unit)+1)[:n]
			for len(s) > 0 && !utf8.ValidString(s) {
				s = s[:len(s)-1]
			}
		}
		if o.jsonSafe && s == "\xff" {
			s = "ff"
		}
		return "s" + hex.EncodeToString([]byte(s))
	case reflect.Slice:
		if t.Elem().Kind() == reflect.Uint8 {
			if r.chance(1, 4) || o.jsonSafe {
				return "xn"
			}
			if r.chance(1, 100) {
				return "x" + hexStr(bigLens[r.intn(len(bigLens))], byte(r.intn(256)))
			}
			return "x" + hexStr(r.intn(5), byte(r.intn(256)))
		}
		if r.chance(1, 5) || o.depth <= 0 && r.chance(1, 2) {
			return "n"
		}
		n := r.intn(4)
		if o.depth <= 0 {
			n = 0
		} else if r.chance(1, 80) {
			// many elements (counts around one-byte / two-byte length heads and power-of-two buffer sizes), flat ones
			n = bigCounts[r.intn(len(bigCounts))]
			d.depth = 0
			if k := t.Elem().Kind(); k == reflect.Struct || k == reflect.Interface {
				d.depth = 1
			}
		}
		parts := make([]string, n)
		for i := range parts {
			parts[i] = genValue(r, t.Elem(), d)
		}
		return "[" + strings.Join(parts, ",") + "]"
	case reflect.Array:
		if t.Elem().Kind() == reflect.Uint8 {
			if t == reflect.TypeOf(Digest{}) && o.jsonSafe {
				// Digest is transformed to a string of its bytes: JSON carries valid UTF-8 text only
				return "X" + hexStr(t.Len(), byte(0x30+r.intn(0x40)))[:0] + fmt.Sprintf("%x", []byte{byte(0x30 + r.intn(70)), byte(0x30 + r.intn(70)), byte(0x30 + r.intn(70)), byte(0x30 + r.intn(70))})
			}
			return "X" + hexStr(t.Len(), byte(r.intn(256)))
		}
		parts := make([]string, t.Len())
		for i := range parts {
			parts[i] = genValue(r, t.Elem(), d)
		}
		return "A[" + strings.Join(parts, ",") + "]"
	case reflect.Map:
		if r.chance(1, 5) || o.depth <= 0 && r.chance(1, 2) {
			return "n"
		}
		n := r.intn(4)
		if o.depth <= 0 {
			n = 0
		}
		if o.depth > 0 && t.Key().Kind() == reflect.String && r.chance(1, 80) {
			// many keys, most of them of equal length (ties for a length-first order, long runs for any sort)
			n = bigCounts[r.intn(len(bigCounts))]
			d.depth = 0
			if k := t.Elem().Kind(); k == reflect.Struct || k == reflect.Interface {
				d.depth = 1
			}
			var parts []string
			for i := 0; i < n; i++ {
				key := fmt.Sprintf("k%03d", (i*37)%n)
				if i%11 == 0 {
					key = fmt.Sprintf("q%d", (i*37)%n)
				}
				parts = append(parts, "s"+hex.EncodeToString([]byte(key))+"="+genValue(r, t.Elem(), d))
			}
			return "M{" + strings.Join(parts, ",") + "}"
		}
		seen := map[string]bool{}
		var parts []string
		for i := 0; i < n; i++ {
			k := genValue(r, t.Key(), d)
			if seen[k] {
				continue
			}
			seen[k] = true
			parts = append(parts, k+"="+genValue(r, t.Elem(), d))
		}
		return "M{" + strings.Join(parts, ",") + "}"
	case reflect.Ptr:
		if r.chance(1, 4) || o.depth <= 0 {
			return "n"
		}
		return "P" + genValue(r, t.Elem(), d)
	case reflect.Interface:
		if r.chance(1, 5) || o.depth <= 0 {
			return "n"
		}
		if t.NumMethod() > 0 {
			ct := []reflect.Type{reflect.TypeOf(Circle{}), reflect.TypeOf(Square{}), reflect.TypeOf(Blob{}), reflect.TypeOf(Big9a{}), reflect.TypeOf(Big9b{})}[r.intn(5)]
			if !o.roundtrip && r.chance(1, 8) {
				// a member held by pointer (nil or not) is not a member; nor is an unnamed struct that merely embeds one
				ct = []reflect.Type{reflect.TypeOf((*Circle)(nil)), reflect.TypeOf(struct{ Circle }{})}[r.intn(2)]
			}
			return fmt.Sprintf("I%d:%s", tid(ct), genValue(r, ct, d))
		}
		cs := ifaceChoices(o.jsonSafe)
		if o.roundtrip {
			cs = []reflect.Type{reflect.TypeOf(false), reflect.TypeOf(int(0)), reflect.TypeOf(int8(0)), reflect.TypeOf(int64(0)),
				reflect.TypeOf(uint16(0)), reflect.TypeOf(uint64(0)), reflect.TypeOf(float64(0)), reflect.TypeOf(float32(0)), reflect.TypeOf(""),
				reflect.TypeOf([]interface{}{}), reflect.TypeOf(map[string]interface{}{})}
			if !o.jsonSafe {
				cs = append(cs, reflect.TypeOf([]byte{}))
			}
			if o.cbor && !o.tagged {
				// the untagged atlas configurations still register one type under tag 0
				cs = append(cs, reflect.TypeOf(TrBytes{}))
			}
			if o.tagged && o.cbor {
				cs = append(cs, reflect.TypeOf(Inner{}), reflect.TypeOf(TrNum(0)), reflect.TypeOf(TrBytes{}), reflect.TypeOf(TrSq{}), reflect.TypeOf(TrOpt{}), reflect.TypeOf(TrW{}), reflect.TypeOf(TrN{}), reflect.TypeOf(Digest{}), reflect.TypeOf(TwoMaps{}), reflect.TypeOf(Blob{}), reflect.TypeOf(Blob{}), reflect.TypeOf(TrIn{}), reflect.TypeOf(TrComp{}), reflect.TypeOf(Big9a{}), reflect.TypeOf(Big9b{}), reflect.TypeOf(Wide{}), hugeT130)
			}
		}
		ct := cs[r.intn(len(cs))]
		return fmt.Sprintf("I%d:%s", tid(ct), genValue(r, ct, d))
	case reflect.Struct:
		parts := make([]string, t.NumField())
		for i := range parts {
			parts[i] = genValue(r, t.Field(i).Type, d)
		}
		return "S(" + strings.Join(parts, ",") + ")"
	}
	return "n"
}

// deepValues: values nested d levels deep for the recursive zoo types (records through pointers and slices, untyped
// slices and maps), with something at every level
func deepValues(d int) []struct {
	t  reflect.Type
	vd string
} {
	it := tid(reflect.TypeOf(int(0)))
	st := tid(reflect.TypeOf([]interface{}{}))
	mt := tid(reflect.TypeOf(map[string]interface{}{}))
	rec, sl, mp := "S(i0,n,n)", "[]", "M{}"
	for k := 1; k <= d; k++ {
		if k%2 == 0 {
			rec = fmt.Sprintf("S(i%d,P%s,n)", k, rec)
		} else {
			rec = fmt.Sprintf("S(i%d,n,[S(i-%d,n,n),%s])", k, k, rec)
		}
		sl = fmt.Sprintf("[I%d:i%d,I%d:%s]", it, k, st, sl)
		mp = fmt.Sprintf("M{s61=I%d:i%d,s6b=I%d:%s}", it, k, mt, mp)
	}
	return []struct {
		t  reflect.Type
		vd string
	}{{reflect.TypeOf(Rec{}), rec}, {reflect.TypeOf([]interface{}{}), sl}, {reflect.TypeOf(map[string]interface{}{}), mp}}
}
