package main

import (
	"bytes"
	stdjson "encoding/json"
	"fmt"
	"math"
	"strconv"
	"strings"

	"github.com/polydawn/refmt/json"
	"github.com/polydawn/refmt/tok"
)

// lenient deletes commas that directly precede a closing bracket or brace (outside strings).
func lenient(t []byte) []byte {
	out := make([]byte, 0, len(t))
	inStr, esc := false, false
	for i := 0; i < len(t); i++ {
		c := t[i]
		if inStr {
			out = append(out, c)
			if esc {
				esc = false
			} else if c == '\\' {
				esc = true
			} else if c == '"' {
				inStr = false
			}
			continue
		}
		if c == '"' {
			inStr = true
		}
		if c == ',' {
			j := i + 1
			for j < len(t) && (t[j] == ' ' || t[j] == '\t' || t[j] == '\r' || t[j] == '\n') {
				j++
			}
			if j < len(t) && (t[j] == ']' || t[j] == '}') {
				continue
			}
		}
		out = append(out, c)
	}
	return out
}

// tokensToValue rebuilds a Go value from a well-formed token list (maps as ordered pairs).
type kv struct {
	k string
	v interface{}
}

func tokensToValue(ts []tok.Token, pos *int) (interface{}, bool) {
	if *pos >= len(ts) {
		return nil, false
	}
	t := ts[*pos]
	*pos++
	switch t.Type {
	case tok.TMapOpen:
		var m []kv
		for {
			if *pos >= len(ts) {
				return nil, false
			}
			if ts[*pos].Type == tok.TMapClose {
				*pos++
				return m, true
			}
			k := ts[*pos]
			if k.Type != tok.TString {
				return nil, false
			}
			*pos++
			v, ok := tokensToValue(ts, pos)
			if !ok {
				return nil, false
			}
			m = append(m, kv{k.Str, v})
		}
	case tok.TArrOpen:
		a := []interface{}{}
		for {
			if *pos >= len(ts) {
				return nil, false
			}
			if ts[*pos].Type == tok.TArrClose {
				*pos++
				return a, true
			}
			v, ok := tokensToValue(ts, pos)
			if !ok {
				return nil, false
			}
			a = append(a, v)
		}
	case tok.TMapClose, tok.TArrClose:
		return nil, false
	case tok.TNull:
		return nil, true
	case tok.TString:
		return t.Str, true
	case tok.TBool:
		return t.Bool, true
	case tok.TInt:
		return t.Int, true
	case tok.TUint:
		return t.Uint, true
	case tok.TFloat64:
		return t.Float64, true
	case tok.TBytes:
		return t.Bytes, true
	}
	return nil, false
}

// sameJSON compares a token-derived value with encoding/json's (UseNumber) reading.
func sameJSON(a interface{}, b interface{}) string {
	switch bv := b.(type) {
	case nil:
		if a != nil {
			return "null vs " + fmt.Sprint(a)
		}
	case bool:
		if av, ok := a.(bool); !ok || av != bv {
			return "bool differs"
		}
	case string:
		if av, ok := a.(string); !ok || av != bv {
			return fmt.Sprintf("string differs: %q vs %q", a, bv)
		}
	case stdjson.Number:
		s := string(bv)
		switch av := a.(type) {
		case int64:
			if i, err := strconv.ParseInt(s, 10, 64); err != nil || i != av {
				// also fine if the text is not integer syntax but the value is that integer exactly? no: refmt types by syntax
				return fmt.Sprintf("int token %d for number text %s", av, s)
			}
		case uint64:
			if u, err := strconv.ParseUint(s, 10, 64); err != nil || u != av {
				return fmt.Sprintf("uint token %d for number text %s", av, s)
			}
		case float64:
			f, err := strconv.ParseFloat(s, 64)
			if err != nil || math.Float64bits(f) != math.Float64bits(av) {
				if !(f == 0 && av == 0) {
					return fmt.Sprintf("float token %v for number text %s", av, s)
				}
			}
			if _, err := strconv.ParseInt(s, 10, 64); err == nil {
				return fmt.Sprintf("float token for integer text %s", s)
			}
		default:
			return fmt.Sprintf("number text %s vs %T", s, a)
		}
	case []interface{}:
		av, ok := a.([]interface{})
		if !ok || len(av) != len(bv) {
			return "array differs"
		}
		for i := range bv {
			if d := sameJSON(av[i], bv[i]); d != "" {
				return d
			}
		}
	case map[string]interface{}:
		av, ok := a.([]kv)
		if !ok {
			return "object differs"
		}
		seen := map[string]bool{}
		for _, e := range av {
			seen[e.k] = true
		}
		if len(seen) != len(bv) {
			return "object key sets differ"
		}
		// last occurrence wins in encoding/json
		last := map[string]interface{}{}
		for _, e := range av {
			last[e.k] = e.v
		}
		for k, v := range bv {
			x, ok := last[k]
			if !ok {
				return "missing key " + k
			}
			if d := sameJSON(x, v); d != "" {
				return d
			}
		}
	}
	return ""
}

func opJsonDec(p []string) string {
	data, err := parseHexOrDash(p[0])
	if err != nil {
		return "bad-op"
	}
	buf := bytes.NewBuffer(data)
	dec := json.NewDecoder(buf)
	toks, class, steps := runDecoder(dec, 2*len(data)+8)
	rest := buf.Len()
	// oracle: encoding/json
	oracle := "ok"
	sd := stdjson.NewDecoder(bytes.NewReader(data))
	sd.UseNumber()
	var sv interface{}
	serr := sd.Decode(&sv)
	if class == "ok" {
		consumed := data[:len(data)-rest]
		lt := lenient(consumed)
		if !stdjson.Valid(lt) && len(toks) == 1 && len(consumed) > 0 {
			// a top-level number ends at the first byte that cannot continue it; that look-ahead byte was
			// taken from the buffer and sits in the reader's push-back, so it is not part of the item
			consumed = consumed[:len(consumed)-1]
			lt = lenient(consumed)
		}
		if !stdjson.Valid(lt) {
			oracle = "viol:accepted-invalid-json"
		} else {
			pos := 0
			v, ok := tokensToValue(toks, &pos)
			if !ok || pos != len(toks) {
				oracle = "viol:tokens-not-one-value"
			} else {
				d2 := stdjson.NewDecoder(bytes.NewReader(lt))
				d2.UseNumber()
				var ref interface{}
				if e := d2.Decode(&ref); e != nil {
					oracle = "viol:oracle-cannot-read-accepted-text"
				} else if d := sameJSON(v, ref); d != "" {
					oracle = "viol:value-differs:" + strings.ReplaceAll(d, " ", "_")
				}
			}
		}
	} else if class == "panic" || class == "loop" {
		oracle = "viol:" + class
	} else if serr == nil {
		// encoding/json read a value; refmt must too, unless the number is outside refmt's 64-bit token range
		if !containsBigNumber(sv) && !textHasBigNumber(data) {
			oracle = "viol:rejected-valid-json"
		}
	}
	return fmt.Sprintf("I=%s n=%d O=%s", showDec(toks, rest, class), steps, oracle)
}

// textHasBigNumber looks at EVERY number of the first value in the text, also those that the decoded value no longer
// shows because a later duplicate key replaced them.
func textHasBigNumber(data []byte) bool {
	d := stdjson.NewDecoder(bytes.NewReader(data))
	d.UseNumber()
	depth := 0
	for {
		t, err := d.Token()
		if err != nil {
			return false
		}
		switch x := t.(type) {
		case stdjson.Delim:
			if x == '{' || x == '[' {
				depth++
			} else {
				depth--
			}
		case stdjson.Number:
			if containsBigNumber(x) {
				return true
			}
		}
		if depth == 0 {
			return false
		}
	}
}

// containsBigNumber: integer-syntax numbers outside [-2^63, 2^64-1] are documented as errors (pinned test).
func containsBigNumber(v interface{}) bool {
	switch x := v.(type) {
	case stdjson.Number:
		s := string(x)
		if strings.ContainsAny(s, ".eE") {
			f, err := strconv.ParseFloat(s, 64)
			return err != nil || math.IsInf(f, 0)
		}
		if _, err := strconv.ParseInt(s, 10, 64); err == nil {
			return false
		}
		if _, err := strconv.ParseUint(s, 10, 64); err == nil {
			return false
		}
		return true
	case []interface{}:
		for _, e := range x {
			if containsBigNumber(e) {
				return true
			}
		}
	case map[string]interface{}:
		for _, e := range x {
			if containsBigNumber(e) {
				return true
			}
		}
	}
	return false
}
