package main

import (
	"fmt"
	"strings"

	"github.com/polydawn/refmt/json"
)

// Deep and wide documents with something before and after every nested container, at the depths and counts where fixed
// buffers, initial stack capacities, one-byte / two-byte length heads and counter widths change over.

var shapeDepths = []int{9, 16, 17, 31, 32, 33, 63, 64, 65, 127, 128, 129, 255, 256, 257}
var shapeCounts = []int{16, 17, 23, 24, 25, 32, 33, 64, 65, 100, 255, 256, 257, 1000}

// deepToks: token sequences nested d deep. kind: 0 definite arrays, 1 indefinite arrays, 2 definite maps, 3 indefinite
// maps, 4 alternating arrays and maps (definite), 5 alternating, indefinite
func deepToks(d, kind int) string {
	var pre, post []string
	for k := 0; k < d; k++ {
		arr := kind == 0 || kind == 1 || (kind >= 4 && k%2 == 0)
		def := kind == 0 || kind == 2 || kind == 4
		if arr {
			if def {
				pre = append(pre, "[3", "i1")
			} else {
				pre = append(pre, "[-1", "i1")
			}
			post = append([]string{"s7a", "]"}, post...)
		} else {
			if def {
				pre = append(pre, "{3", "s61", "i1", "s6b")
			} else {
				pre = append(pre, "{-1", "s61", "i1", "s6b")
			}
			post = append([]string{"s7a", "b1", "}"}, post...)
		}
	}
	return strings.Join(append(append(pre, "0"), post...), ",")
}

// wideToks: n entries in one container (kind as above, 0..3), in an outer array with a sibling after it
func wideToks(n, kind int) string {
	var ts []string
	open := fmt.Sprint(n)
	if kind == 1 || kind == 3 {
		open = "-1"
	}
	if kind <= 1 {
		ts = append(ts, "["+open)
		for i := 0; i < n; i++ {
			ts = append(ts, fmt.Sprintf("i%d", i-3))
		}
		ts = append(ts, "]")
	} else {
		ts = append(ts, "{"+open)
		for i := 0; i < n; i++ {
			ts = append(ts, fmt.Sprintf("s%x", fmt.Sprintf("k%03d", i)), fmt.Sprintf("i%d", i))
		}
		ts = append(ts, "}")
	}
	return "[2," + strings.Join(ts, ",") + ",s656e64,]"
}

func encodeToksWith(format string, toks string) []byte {
	ts, err := parseToks(toks)
	if err != nil {
		return nil
	}
	w := &recordingWriter{}
	runSteps(newEncoder(format, w, json.EncodeOptions{}), ts)
	return joinCalls(w.calls)
}

// emitShapes: op is one of cborenc, jsonenc, acc, cbordec, jsondec, pump
func emitShapes(op string, tier string) {
	depths, counts := shapeDepths, shapeCounts
	if tier != "thorough" {
		depths = []int{9, 17, 32, 33, 64, 65, 129, 257}
		counts = []int{17, 24, 25, 33, 65, 100, 256, 257}
	}
	var docs []string
	for _, d := range depths {
		for kind := 0; kind < 6; kind++ {
			docs = append(docs, deepToks(d, kind))
		}
	}
	for _, n := range counts {
		for kind := 0; kind < 4; kind++ {
			docs = append(docs, wideToks(n, kind))
		}
	}
	for _, toks := range docs {
		switch op {
		case "cborenc":
			emit("cborenc %s", toks)
		case "jsonenc":
			emit("jsonenc nil - %s", toks)
			emit("jsonenc 0a 2020 %s", toks)
		case "acc":
			for _, f := range []string{"cbor", "json", "pretty", "jsoni"} {
				emit("acc %s %s", f, toks)
			}
		case "cbordec":
			if b := encodeToksWith("cbor", toks); len(b) > 0 {
				emit("cbordec 0 %s", hexOrDash(b))
				emit("cbordec 0 %s", hexOrDash(b[:len(b)-1]))
			}
		case "jsondec":
			if b := encodeToksWith("json", toks); len(b) > 0 {
				emit("jsondec %s", hexOrDash(b))
				emit("jsondec %s", hexOrDash(b[:len(b)-1]))
			}
			if b := encodeToksWith("jsoni", toks); len(b) > 0 {
				emit("jsondec %s", hexOrDash(b))
			}
		case "pump":
			if b := encodeToksWith("cbor", toks); len(b) > 0 {
				emit("pump cbor json nil - %s", hexOrDash(b))
				emit("pump cbor json 0a 09 %s", hexOrDash(b))
				emit("pump cbor cbor nil - %s", hexOrDash(b))
			}
			if b := encodeToksWith("json", toks); len(b) > 0 {
				emit("pump json cbor nil - %s", hexOrDash(b))
				emit("pump json json 0a 2020 %s", hexOrDash(b))
			}
		}
	}
}
