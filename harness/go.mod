module verifharness

go 1.16

require github.com/polydawn/refmt v0.0.0

replace github.com/polydawn/refmt => /repo
