package main

import (
	"bytes"
	"io"
	"strings"

	"github.com/polydawn/refmt/cbor"
	"github.com/polydawn/refmt/json"
	"github.com/polydawn/refmt/pretty"
	"github.com/polydawn/refmt/tok"
)

type stepper interface {
	Step(*tok.Token) (bool, error)
}

// recordingWriter records every Write call (and implements nothing else, so
// string writes arrive as Write calls too).
type recordingWriter struct {
	calls [][]byte
}

func (w *recordingWriter) Write(p []byte) (int, error) {
	w.calls = append(w.calls, append([]byte(nil), p...))
	return len(p), nil
}

func newEncoder(format string, w io.Writer, jopts json.EncodeOptions) stepper {
	switch format {
	case "cbor":
		return cbor.NewEncoder(w)
	case "json":
		return json.NewEncoder(w, jopts)
	case "jsoni":
		return json.NewEncoder(w, json.EncodeOptions{Line: []byte{'\n'}, Indent: []byte{' ', ' '}})
	case "pretty":
		return pretty.NewEncoder(w)
	}
	panic("bad format " + format)
}

// safeStep runs one Step under recover.
func safeStep(s stepper, t *tok.Token) (done bool, err error, panicked bool) {
	defer func() {
		if r := recover(); r != nil {
			panicked = true
		}
	}()
	done, err = s.Step(t)
	return
}

// runSteps feeds tokens until the first done / error / panic.
// Flags: '.' continue, 'D' done, 'E' error, 'P' panic.
func runSteps(s stepper, ts []tok.Token) string {
	var sb strings.Builder
	for i := range ts {
		t := ts[i]
		done, err, p := safeStep(s, &t)
		switch {
		case p:
			sb.WriteByte('P')
			return sb.String()
		case err != nil:
			sb.WriteByte('E')
			return sb.String()
		case done:
			sb.WriteByte('D')
			return sb.String()
		default:
			sb.WriteByte('.')
		}
	}
	return sb.String()
}

// runStepsSlot feeds the same tokens the way the library's own producers do: through ONE token slot that is reused for
// the whole run and in which only the fields the token's type gives meaning to are written (so every other field,
// including the tag fields on a closing token, still holds what some earlier token left there).
func runStepsSlot(s stepper, ts []tok.Token) string {
	slot := tok.Token{Length: 7, Str: "stale", Bytes: []byte("stale"), Bool: true, Int: -77, Uint: 1<<64 - 1, Float64: 2.5}
	var sb strings.Builder
	for i := range ts {
		t := ts[i]
		slot.Type = t.Type
		if t.Type != tok.TMapClose && t.Type != tok.TArrClose {
			slot.Tagged = t.Tagged
			if t.Tagged {
				slot.Tag = t.Tag
			}
		}
		switch t.Type {
		case tok.TMapOpen, tok.TArrOpen:
			slot.Length = t.Length
		case tok.TString:
			slot.Str = t.Str
		case tok.TBytes:
			slot.Bytes = t.Bytes
		case tok.TBool:
			slot.Bool = t.Bool
		case tok.TInt:
			slot.Int = t.Int
		case tok.TUint:
			slot.Uint = t.Uint
		case tok.TFloat64:
			slot.Float64 = t.Float64
		}
		done, err, p := safeStep(s, &slot)
		switch {
		case p:
			sb.WriteByte('P')
			return sb.String()
		case err != nil:
			sb.WriteByte('E')
			return sb.String()
		case done:
			sb.WriteByte('D')
			return sb.String()
		default:
			sb.WriteByte('.')
		}
	}
	return sb.String()
}

// encodeBoth runs an encoder over fresh tokens and over the reused slot; they must agree, and when they do not the
// reused-slot run is the one reported (it is what a pump does).
func encodeBoth(mk func(io.Writer) stepper, ts []tok.Token) (string, *recordingWriter) {
	w := &recordingWriter{}
	fl := runSteps(mk(w), ts)
	w2 := &recordingWriter{}
	fl2 := runStepsSlot(mk(w2), ts)
	if fl2 != fl || !bytes.Equal(joinCalls(w.calls), joinCalls(w2.calls)) {
		return fl2, w2
	}
	return fl, w
}

func opAcc(p []string) string {
	ts, err := parseToks(p[1])
	if err != nil {
		return "bad-op"
	}
	fl, _ := encodeBoth(func(w io.Writer) stepper { return newEncoder(p[0], w, json.EncodeOptions{}) }, ts)
	return "I=" + fl
}
