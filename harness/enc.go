package main

import (
	"io"
	"strings"

	"github.com/polydawn/refmt/cbor"
	"github.com/polydawn/refmt/json"
	"github.com/polydawn/refmt/pretty"
	"github.com/polydawn/refmt/tok"
)

type stepper interface {
	Step(*tok.Token) (bool, error)
}

// recordingWriter records every Write call (and implements nothing else, so
// string writes arrive as Write calls too).
type recordingWriter struct {
	calls [][]byte
}

func (w *recordingWriter) Write(p []byte) (int, error) {
	w.calls = append(w.calls, append([]byte(nil), p...))
	return len(p), nil
}

func newEncoder(format string, w io.Writer, jopts json.EncodeOptions) stepper {
	switch format {
	case "cbor":
		return cbor.NewEncoder(w)
	case "json":
		return json.NewEncoder(w, jopts)
	case "jsoni":
		return json.NewEncoder(w, json.EncodeOptions{Line: []byte{'\n'}, Indent: []byte{' ', ' '}})
	case "pretty":
		return pretty.NewEncoder(w)
	}
	panic("bad format " + format)
}

// safeStep runs one Step under recover.
func safeStep(s stepper, t *tok.Token) (done bool, err error, panicked bool) {
	defer func() {
		if r := recover(); r != nil {
			panicked = true
		}
	}()
	done, err = s.Step(t)
	return
}

// runSteps feeds tokens until the first done / error / panic.
// Flags: '.' continue, 'D' done, 'E' error, 'P' panic.
func runSteps(s stepper, ts []tok.Token) string {
	var sb strings.Builder
	for i := range ts {
		t := ts[i]
		done, err, p := safeStep(s, &t)
		switch {
		case p:
			sb.WriteByte('P')
			return sb.String()
		case err != nil:
			sb.WriteByte('E')
			return sb.String()
		case done:
			sb.WriteByte('D')
			return sb.String()
		default:
			sb.WriteByte('.')
		}
	}
	return sb.String()
}

func opAcc(p []string) string {
	ts, err := parseToks(p[1])
	if err != nil {
		return "bad-op"
	}
	w := &recordingWriter{}
	s := newEncoder(p[0], w, json.EncodeOptions{})
	return "I=" + runSteps(s, ts)
}
