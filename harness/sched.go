package main

import (
	"bufio"
	"bytes"
	"fmt"
	"io"
	"strconv"
	"strings"

	"github.com/polydawn/refmt/cbor"
	"github.com/polydawn/refmt/json"
	"github.com/polydawn/refmt/shared"
)

// schedReader is an io.Reader delivering `data` in the chunk sizes given (0 = an empty read),
// optionally returning the last bytes together with io.EOF.  Mirrors Refmt.Sched.Src.read.
type schedReader struct {
	data        []byte
	chunks      []int
	eofWithData bool
	// injected fault: after `faultAt` bytes have been delivered return errInjected (once, or forever)
	faultAt   int
	faultStop bool
	delivered int
	fired     bool
	faultErr  error // what the injected fault returns (errInjected unless set)
}

func (s *schedReader) Read(p []byte) (int, error) {
	if len(p) == 0 {
		return 0, nil
	}
	if s.faultAt >= 0 && s.delivered == s.faultAt && (!s.fired || s.faultStop) {
		s.fired = true
		if s.faultErr != nil {
			return 0, s.faultErr
		}
		return 0, errInjected
	}
	if len(s.data) == 0 {
		return 0, io.EOF
	}
	want := len(p)
	if s.faultAt >= 0 && !s.fired && s.delivered+want > s.faultAt {
		want = s.faultAt - s.delivered
	}
	n := want
	if len(s.chunks) > 0 {
		c := s.chunks[0]
		if c == 0 {
			s.chunks = s.chunks[1:]
			return 0, nil
		}
		if c < n {
			n = c
		}
		if len(s.data) < n {
			n = len(s.data)
		}
		if n < c {
			s.chunks[0] = c - n
		} else {
			s.chunks = s.chunks[1:]
		}
	} else if len(s.data) < n {
		n = len(s.data)
	}
	copy(p, s.data[:n])
	s.data = s.data[n:]
	s.delivered += n
	if s.eofWithData && len(s.data) == 0 {
		return n, io.EOF
	}
	return n, nil
}

func parseSched(s string) []int {
	if s == "-" {
		return nil
	}
	parts := strings.Split(s, ".")
	out := make([]int, len(parts))
	for i, p := range parts {
		out[i], _ = strconv.Atoi(p)
	}
	return out
}

func newSched(data []byte, sched string, eof string) *schedReader {
	return &schedReader{data: append([]byte{}, data...), chunks: parseSched(sched), eofWithData: eof == "1", faultAt: -1}
}

// rdops <hex> <sched> <eof> <ops>: ops = comma list of  r (Readn1) | u (Unreadn1) | n<k> (Readn k) | z<k> (Readnzc k)
func opRdOps(p []string) string {
	data, err := parseHexOrDash(p[0])
	if err != nil {
		return "bad-op"
	}
	rd := shared.NewReader(newSched(data, p[1], p[2]))
	var sb strings.Builder
	for i, op := range strings.Split(p[3], ",") {
		if i > 0 {
			sb.WriteByte(',')
		}
		func() {
			defer func() {
				if r := recover(); r != nil {
					sb.WriteString("P")
				}
			}()
			switch op[0] {
			case 'r':
				b, err := rd.Readn1()
				if err != nil {
					sb.WriteString("e" + errClass(err))
				} else {
					sb.WriteString(fmt.Sprintf("%02x", b))
				}
			case 'u':
				rd.Unreadn1()
				sb.WriteString("u")
			case 'n', 'z':
				k, _ := strconv.Atoi(op[1:])
				var bs []byte
				var err error
				if op[0] == 'n' {
					bs, err = rd.Readn(k)
				} else {
					bs, err = rd.Readnzc(k)
				}
				if err != nil {
					sb.WriteString("e" + errClass(err))
				} else {
					sb.WriteString(hexOrDash(bs))
				}
			}
		}()
	}
	return "I=" + sb.String()
}

// sched <fmt> <hex> <sched> <eof>: decode through a scheduling reader; oracle = same as one-shot decoding
func opSched(p []string, wrap string) string {
	data, err := parseHexOrDash(p[1])
	if err != nil {
		return "bad-op"
	}
	mk := func(r io.Reader) stepper {
		if p[0] == "cbor" {
			return cbor.NewDecoder(cbor.DecodeOptions{}, r)
		}
		return json.NewDecoder(r)
	}
	var sr io.Reader = newSched(data, p[2], p[3])
	switch wrap {
	case "bufio":
		// the caller hands over an already buffered reader (which passes empty reads through one to one)
		sr = bufio.NewReaderSize(sr, 16)
	case "bufio4k":
		sr = bufio.NewReader(sr)
	case "plain":
		// a reader type that offers nothing beyond Read
		sr = struct{ io.Reader }{sr}
	}
	toks, class, _ := runDecoder(mk(sr), 2*len(data)+8)
	got := showToks(toks) + "/" + class
	buf := bytes.NewBuffer(data)
	toks0, class0, _ := runDecoder(mk(buf), 2*len(data)+8)
	want := showToks(toks0) + "/" + class0
	oracle := "ok"
	if got != want {
		oracle = "viol:differs-from-one-shot:" + want
	}
	return "I=" + got + " O=" + oracle
}
