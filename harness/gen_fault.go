package main

import (
	"strings"

	"github.com/polydawn/refmt/cbor"
	"github.com/polydawn/refmt/json"
)

func genWFault(tier string, seed uint64) {
	r := &rng{s: seed}
	docs := []string{"0", "u500", "s6b6579", "[2,u1,i-5,]", "{-1,s6b,[0,],s6b32,{1,s61,f3ff8000000000000,},}", "t9.[-1,s,x0102,]",
		"{2,s61,u70000,s62,sc3a922,}", "[-1,[-1,[-1,],],]"}
	// strings and keys longer than the copy buffers of the writers (4 KiB), and byte strings
	for _, n := range []int{4095, 4096, 4097, 5000, 9000} {
		docs = append(docs, "s"+strings.Repeat("61", n), "[2,s"+strings.Repeat("62", n)+",i1,]", "{1,s"+strings.Repeat("6b", n)+",s76,}")
	}
	nd := 60
	if tier == "thorough" {
		nd = 5000
	}
	for i := 0; i < nd; i++ {
		var toks []string
		genTree(r, 1+r.intn(4), &toks, false)
		docs = append(docs, strings.Join(toks, ","))
	}
	for _, d := range docs {
		ts, _ := parseToks(d)
		for _, f := range []string{"cbor", "json"} {
			opts := [][2]string{{"nil", "-"}}
			if f == "json" {
				opts = append(opts, [2]string{"0a", "2020"})
			}
			for _, o := range opts {
				ref := &faultyWriter{k: -1}
				var st stepper
				if f == "cbor" {
					st = cbor.NewEncoder(ref)
				} else {
					st = json.NewEncoder(ref, parseJSONOpts(o[0], o[1]))
				}
				runSteps(st, ts)
				for k := 0; k <= ref.calls; k++ {
					for _, m := range []string{"e0", "s0", "b0", "e1", "s1", "b1"} {
						emit("wfault %s %s %s %s %d %s", f, o[0], o[1], d, k, m)
						// the destination also offers WriteString
						emit("wfault %sw %s %s %s %d %s", f, o[0], o[1], d, k, m)
					}
				}
			}
		}
	}
}

func genRFault(tier string, seed uint64) {
	r := &rng{s: seed}
	var docs []struct{ f, hex string }
	for _, d := range schedDocs {
		docs = append(docs, struct{ f, hex string }{d.format, d.hex})
	}
	nd := 400
	if tier == "thorough" {
		nd = 30000
	}
	for i := 0; i < nd; i++ {
		if r.chance(1, 2) {
			var item []byte
			genItem(r, r.intn(4), &item, false)
			docs = append(docs, struct{ f, hex string }{"cbor", hexOrDash(item)})
		} else {
			var sb strings.Builder
			randJSON(r, r.intn(4), &sb)
			docs = append(docs, struct{ f, hex string }{"json", hexOrDash([]byte(sb.String()))})
		}
	}
	for di, d := range docs {
		n := len(d.hex) / 2
		if d.hex == "-" {
			n = 0
		}
		for k := 0; k <= n; k++ {
			emit("rfault %s %s %d 0", d.f, d.hex, k)
			emit("rfault %s %s %d 1", d.f, d.hex, k)
			if di%3 == 0 {
				// the reader's failure wraps io.EOF: still a failure, not the end of the input
				emit("rfaultw %s %s %d 0", d.f, d.hex, k)
				emit("rfaultw %s %s %d 1", d.f, d.hex, k)
			}
		}
	}
}
