package main

// The type zoo: compiled named types plus reflect-composed types, the transform
// function library, and the atlas configurations.  Descriptors handed to the Lean
// model are read back from reflect and from the *AtlasEntry values the library built.

import (
	"fmt"
	"reflect"
	"strconv"
	"strings"

	"github.com/polydawn/refmt/obj/atlas"
)

type MyInt int
type MyI8 int8
type MyI16 int16
type MyU16 uint16
type MyU32 uint32
type MyStr string
type MyBool bool
type MyF32 float32
type MyBytes []byte
type MyByte uint8
type Arr4 [4]byte
type Arr0 [0]byte

type Inner struct {
	X int
	Y string
}
type WithPtr struct {
	P *Inner
	S []Inner
	M map[string]*Inner
	I interface{}
	B []byte
	A [2]MyI8
}
type Emb struct {
	Inner
	Z int
}
type EmbPtr struct {
	*Inner
	Z int
}
type Rec struct {
	V    int
	Next *Rec
	Kids []Rec
}
type Tagged struct {
	A int    `refmt:"alpha"`
	B string `refmt:"beta,omitempty"`
	C *int   `refmt:",omitempty"`
	D []int  `refmt:"-"`
	E uint8
}
type OmitAll struct {
	A int            `refmt:",omitempty"`
	B string         `refmt:",omitempty"`
	C []int          `refmt:",omitempty"`
	D map[string]int `refmt:",omitempty"`
	E *int           `refmt:",omitempty"`
	F interface{}    `refmt:",omitempty"`
	G Inner          `refmt:",omitempty"`
	H [2]int         `refmt:",omitempty"`
	I bool           `refmt:",omitempty"`
	J float64        `refmt:",omitempty"`
	K uint16         `refmt:",omitempty"`
	L [0]int         `refmt:",omitempty"`
	M []byte         `refmt:",omitempty"`
}
type Nums struct {
	I8  int8
	I16 int16
	I32 int32
	I64 int64
	I   int
	U8  uint8
	U16 uint16
	U32 uint32
	U64 uint64
	U   uint
	UP  uintptr
	F32 float32
	F64 float64
}
type KeyStruct struct{ A, B string }
type TrNum int
type TrBytes struct{ X, Y byte }
type TrComp struct{ L []int }
type Shape interface{ isShape() }
type Circle struct{ R int }
type Square struct{ S string }

func (Circle) isShape() {}
func (Square) isShape() {}

// a union member with reference-typed and omitempty fields (whatever a reused slot keeps shows up in the next value)
type Blob struct {
	Attrs map[string]int
	Scale *int
	Note  string `refmt:",omitempty"`
}

func (Blob) isShape() {}

// two union members (also tagged structs in the tagged atlases) with more than 8 fields each, of different types
type Big9a struct{ A0, A1, A2, A3, A4, A5, A6, A7, A8 int }
type Big9b struct{ B0, B1, B2, B3, B4, B5, B6, B7, B8 string }

func (Big9a) isShape() {}
func (Big9b) isShape() {}

// byte slices and byte arrays side by side (one token carries them all, one after the other)
type PaySum struct {
	Payload []byte
	Sum     [4]byte
	Tail    MyBytes
	Sum2    [2]byte
}

// narrow integer fields; atlas 3 maps them by hand and DECLARES wider types in its entries (the builder goes by the
// real field types)
type Narrow struct {
	A int32
	B uint8
	C int16
	D uint16
}

type HasShape struct {
	Name string
	S    Shape
	All  []Shape
}
type NoAtlas struct{ Q int }
type HasNoAtlas struct {
	A int
	N []NoAtlas
}
type MapKeyed struct {
	M map[KeyStruct]int
	N map[string][]string
}
type MapInt map[int]string
type StrMap map[string]int

// a map type with transformed (struct) keys that is itself registered (morphism, tag in the tagged atlases)
type KeyedMap map[KeyStruct]int

// a named map type (which may carry its own key-order morphism) next to a plain map
type TwoMaps struct {
	Canon StrMap
	Plain map[string]int
	Again StrMap
}

// transformed to a struct that has its own (untagged) struct-map entry
type TrSq struct{ V string }

// transformed to a struct that is itself TAGGED in the tagged atlases (a tagged transform whose serial form carries a tag
// of its own)
type TrIn struct {
	X int
	Y string
}

// a named STRING type that also has a (non-identity) transform entry: as a map key it is a string kind, and string-kinded
// keys are written and read as they are
type TrKey string

// transforms the machinery cannot serve (the delegate machine shares the slab row): ChU's serial type ChT has a transform
// of its own; ChW's serial type is a pointer.  They live in atlas 90 only; the library must REFUSE, not panic.
type ChT struct{ X string }
type ChU struct{ Y string }
type ChW struct{ Z string }

// opaque state: only unexported fields, carried by a transform; as an omitempty field it is empty only when that state is zero
type Stamp struct{ sec int64 }
type HasStamp struct {
	S Stamp `refmt:",omitempty"`
	N int
	P *Stamp `refmt:",omitempty"`
}

// a keyed union whose member is itself a keyed union (atlas 90): served by one and the same machine of one slab row
type UzOuter interface{}
type UzInner interface{}

// structs with more fields than a one-byte counter holds (and more than a signed one does)
var hugeT130, hugeT260 = hugeStruct(130), hugeStruct(260)

func hugeStruct(n int) reflect.Type {
	var fs []reflect.StructField
	for i := 0; i < n; i++ {
		fs = append(fs, reflect.StructField{Name: fmt.Sprintf("F%03d", i), Type: reflect.TypeOf(int(0))})
	}
	return reflect.StructOf(fs)
}

// transformed to a one-entry map (a serial form that is itself a container)
type TrMap struct {
	K string
	V int
}

// serial names that differ only by case / are equal under Unicode case folding (k vs KELVIN SIGN, s vs LONG S)
type Fold struct {
	Lower  int    `refmt:"id"`
	Upper  int    `refmt:"ID"`
	K      string `refmt:"k"`
	Kelvin string `refmt:"\u212a"`
	S      int    `refmt:"s"`
	LongS  int    `refmt:"\u017f"`
}

// tagged and untagged transform types side by side in one struct
type TwoTr struct {
	A TrNum
	B KeyStruct
	C TrBytes
	D TrComp
	E TrNum
}

// more mapped fields than bits in a machine word
type Wide struct {
	F00 int
	F01 int
	F02 int
	F03 int `refmt:",omitempty"`
	F04 int
	F05 int
	F06 int
	F07 int
	F08 int
	F09 int
	F10 int
	F11 int
	F12 int
	F13 int
	F14 int
	F15 int
	F16 int
	F17 int
	F18 int
	F19 int
	F20 int
	F21 int
	F22 int
	F23 int
	F24 int
	F25 int
	F26 int
	F27 int
	F28 int
	F29 int
	F30 int
	F31 int
	F32 int
	F33 int
	F34 int
	F35 int
	F36 int
	F37 int
	F38 int
	F39 int
	F40 int
	F41 int
	F42 int
	F43 int
	F44 int
	F45 int
	F46 int
	F47 int
	F48 int
	F49 int
	F50 int
	F51 int
	F52 int
	F53 int
	F54 int
	F55 int
	F56 int
	F57 int
	F58 int
	F59 int
	F60 int
	F61 int
	F62 int
	F63 int `refmt:",omitempty"`
	F64 int `refmt:",omitempty"`
	F65 int `refmt:",omitempty"`
	F66 int
	F67 int
	F68 int
	F69 int `refmt:",omitempty"`
}

// transformed to integers of different widths (the receive type of the unmarshal transform is int16 / int8)
type TrW struct{ V int16 }
type TrN struct{ V int8 }

// a registered (tagged, transformed) type whose Go kind is a byte array
type Digest [4]byte

// transformed to a byte slice: the serial form of the zero value is null
type TrOpt struct{ B []byte }

// ---------------------------------------------------------------- transform library

type trPair struct {
	id int
	m  interface{}
	u  interface{}
}

var transforms = []trPair{
	{1,
		func(k KeyStruct) (string, error) { return k.A + "\x1f" + k.B, nil },
		func(s string) (KeyStruct, error) {
			i := strings.IndexByte(s, 0x1f)
			if i < 0 {
				return KeyStruct{}, fmt.Errorf("no separator")
			}
			return KeyStruct{s[:i], s[i+1:]}, nil
		}},
	{2,
		func(n TrNum) (string, error) { return strconv.Itoa(int(n)), nil },
		func(s string) (TrNum, error) {
			v, err := strconv.ParseInt(s, 10, 64)
			if err != nil || (len(s) > 0 && s[0] == '+') {
				return 0, fmt.Errorf("bad number")
			}
			return TrNum(v), nil
		}},
	{3,
		func(b TrBytes) ([]byte, error) { return []byte{b.X, b.Y}, nil },
		func(bs []byte) (TrBytes, error) {
			if len(bs) != 2 {
				return TrBytes{}, fmt.Errorf("want 2 bytes")
			}
			return TrBytes{bs[0], bs[1]}, nil
		}},
	{4,
		func(c TrComp) ([]int, error) { return c.L, nil },
		func(l []int) (TrComp, error) { return TrComp{l}, nil }},
	{5,
		func(t TrSq) (Square, error) { return Square{t.V}, nil },
		func(q Square) (TrSq, error) { return TrSq{q.S}, nil }},
	{13,
		func(k TrKey) (string, error) { return "c/" + string(k), nil },
		func(s string) (TrKey, error) {
			if !strings.HasPrefix(s, "c/") {
				return "", fmt.Errorf("want the c/ prefix")
			}
			return TrKey(s[2:]), nil
		}},
	{14,
		func(t ChT) (string, error) { return t.X, nil },
		func(s string) (ChT, error) { return ChT{s}, nil }},
	{15,
		func(u ChU) (ChT, error) { return ChT{u.Y}, nil },
		func(t ChT) (ChU, error) { return ChU{t.X}, nil }},
	{16,
		func(w ChW) (*string, error) { z := w.Z; return &z, nil },
		func(p *string) (ChW, error) {
			if p == nil {
				return ChW{}, nil
			}
			return ChW{*p}, nil
		}},
	{17,
		func(t Stamp) (int64, error) { return t.sec, nil },
		func(v int64) (Stamp, error) { return Stamp{v}, nil }},
	{12,
		func(t TrIn) (Inner, error) { return Inner{t.X, t.Y}, nil },
		func(i Inner) (TrIn, error) { return TrIn{i.X, i.Y}, nil }},
	{6,
		func(t TrMap) (map[string]int, error) { return map[string]int{t.K: t.V}, nil },
		func(m map[string]int) (TrMap, error) {
			if len(m) != 1 {
				return TrMap{}, fmt.Errorf("want exactly one entry")
			}
			for k, v := range m {
				return TrMap{k, v}, nil
			}
			return TrMap{}, nil
		}},
	{7,
		func(t TrOpt) ([]byte, error) { return t.B, nil },
		func(b []byte) (TrOpt, error) { return TrOpt{b}, nil }},
	{8,
		func(t TrW) (int16, error) { return t.V, nil },
		func(v int16) (TrW, error) { return TrW{v}, nil }},
	{9,
		func(t TrN) (int8, error) { return t.V, nil },
		func(v int8) (TrN, error) { return TrN{v}, nil }},
	{11, // the same key type as pair 1, written with another separator (used by one atlas only)
		func(k KeyStruct) (string, error) { return k.A + "\x1e" + k.B, nil },
		func(s string) (KeyStruct, error) {
			i := strings.IndexByte(s, 0x1e)
			if i < 0 {
				return KeyStruct{}, fmt.Errorf("no separator")
			}
			return KeyStruct{s[:i], s[i+1:]}, nil
		}},
	{10,
		func(d Digest) (string, error) { return string(d[:]), nil },
		func(s string) (Digest, error) {
			var d Digest
			if len(s) != 4 {
				return d, fmt.Errorf("want 4 bytes")
			}
			copy(d[:], s)
			return d, nil
		}},
}

// ---------------------------------------------------------------- type registry

var typeIDs = map[reflect.Type]int{}
var typeByID = []reflect.Type{}

var zooFrozen bool

func tid(t reflect.Type) int {
	if id, ok := typeIDs[t]; ok {
		return id
	}
	if zooFrozen {
		panic("type " + t.String() + " is not part of the zoo definitions")
	}
	id := len(typeByID)
	typeIDs[t] = id
	typeByID = append(typeByID, t)
	// register components
	switch t.Kind() {
	case reflect.Slice, reflect.Array, reflect.Ptr:
		tid(t.Elem())
	case reflect.Map:
		tid(t.Key())
		tid(t.Elem())
	case reflect.Struct:
		for i := 0; i < t.NumField(); i++ {
			tid(t.Field(i).Type)
		}
	}
	return id
}

var builtinTypes = map[reflect.Type]bool{}

func init() {
	for _, v := range []interface{}{false, "", int(0), int8(0), int16(0), int32(0), int64(0), uint(0), uint8(0), uint16(0),
		uint32(0), uint64(0), uintptr(0), float32(0), float64(0), []byte{}} {
		builtinTypes[reflect.TypeOf(v)] = true
	}
}

func kindName(k reflect.Kind) string {
	switch k {
	case reflect.Float32:
		return "f32"
	case reflect.Float64:
		return "f64"
	}
	return k.String()
}

func b01(b bool) string {
	if b {
		return "1"
	}
	return "0"
}

// describeType renders the descriptor line body for type id.
func describeType(t reflect.Type) string {
	switch t.Kind() {
	case reflect.Bool, reflect.String, reflect.Int, reflect.Int8, reflect.Int16, reflect.Int32, reflect.Int64,
		reflect.Uint, reflect.Uint8, reflect.Uint16, reflect.Uint32, reflect.Uint64, reflect.Uintptr, reflect.Float32, reflect.Float64:
		return "prim:" + kindName(t.Kind()) + ":" + b01(builtinTypes[t])
	case reflect.Slice:
		if t.Elem().Kind() == reflect.Uint8 {
			return "bytes:" + b01(builtinTypes[t])
		}
		return fmt.Sprintf("slice:%d", tid(t.Elem()))
	case reflect.Array:
		if t.Elem().Kind() == reflect.Uint8 {
			return fmt.Sprintf("bytearr:%d", t.Len())
		}
		return fmt.Sprintf("arr:%d:%d", t.Len(), tid(t.Elem()))
	case reflect.Map:
		return fmt.Sprintf("map:%d:%d", tid(t.Key()), tid(t.Elem()))
	case reflect.Ptr:
		return fmt.Sprintf("ptr:%d", tid(t.Elem()))
	case reflect.Interface:
		return "iface:" + b01(t.NumMethod() > 0)
	case reflect.Struct:
		var fs []string
		for i := 0; i < t.NumField(); i++ {
			f := t.Field(i)
			tag, ok := f.Tag.Lookup("refmt")
			tg := "-"
			if ok {
				tg = "h" + fmt.Sprintf("%x", tag)
			}
			fs = append(fs, fmt.Sprintf("%x,%d,%s,%s,%s", f.Name, tid(f.Type), b01(f.PkgPath == ""), b01(f.Anonymous), tg))
		}
		if len(fs) == 0 {
			return "struct:-"
		}
		return "struct:" + strings.Join(fs, ";")
	}
	return "other"
}

// ---------------------------------------------------------------- atlases

type atlasCfg struct {
	id      int
	atl     atlas.Atlas
	entries []*atlas.AtlasEntry // pool: registered entries first, then union-member-only entries
	nReg    int
	sort    atlas.KeySortMode
}

var atlases []*atlasCfg

func trEntry(live interface{}, id int, tag int) *atlas.AtlasEntry {
	b := atlas.BuildEntry(live)
	if tag >= 0 {
		b = b.UseTag(tag)
	}
	for _, t := range transforms {
		if t.id == id {
			e := b.Transform().
				TransformMarshal(atlas.MakeMarshalTransformFunc(t.m)).
				TransformUnmarshal(atlas.MakeUnmarshalTransformFunc(t.u)).Complete()
			entryTrID[e] = id
			return e
		}
	}
	panic("no transform")
}

// the key order an entry was CONFIGURED with by this harness (the entry itself is not asked: a builder that hands out
// shared morphism values would answer with whatever was configured last)
var entryMode = map[*atlas.AtlasEntry]atlas.KeySortMode{}

func mmEntry(live interface{}, tag int, mode atlas.KeySortMode) *atlas.AtlasEntry {
	b := atlas.BuildEntry(live)
	if tag >= 0 {
		b = b.UseTag(tag)
	}
	e := b.MapMorphism().SetKeySortMode(mode).Complete()
	entryMode[e] = mode
	return e
}

var trFuncID = map[reflect.Type]int{}

// the transform pair an entry was built with (one Go type may be mapped through different pairs by different atlases)
var entryTrID = map[*atlas.AtlasEntry]int{}

func buildAtlases() {
	if atlases != nil {
		return
	}
	trFuncID[reflect.TypeOf(KeyStruct{})] = 1
	trFuncID[reflect.TypeOf(TrNum(0))] = 2
	trFuncID[reflect.TypeOf(TrBytes{})] = 3
	trFuncID[reflect.TypeOf(TrComp{})] = 4
	trFuncID[reflect.TypeOf(TrSq{})] = 5
	trFuncID[reflect.TypeOf(TrIn{})] = 12
	trFuncID[reflect.TypeOf(TrKey(""))] = 13
	trFuncID[reflect.TypeOf(Stamp{})] = 17
	trFuncID[reflect.TypeOf(TrMap{})] = 6
	trFuncID[reflect.TypeOf(TrOpt{})] = 7
	trFuncID[reflect.TypeOf(TrW{})] = 8
	trFuncID[reflect.TypeOf(TrN{})] = 9
	trFuncID[reflect.TypeOf(Digest{})] = 10
	structs := []interface{}{Inner{}, WithPtr{}, Emb{}, Rec{}, Tagged{}, OmitAll{}, Nums{}, HasShape{}, HasNoAtlas{}, MapKeyed{}, TwoMaps{}, TwoTr{}, Wide{}, Fold{}, PaySum{}, Narrow{}, reflect.New(hugeT130).Elem().Interface(), reflect.New(hugeT260).Elem().Interface(), HasStamp{}, Big9a{}, Big9b{}, Blob{}, Circle{}, Square{}}
	mk := func(id int, sort atlas.KeySortMode, mode atlas.KeySortMode, tags bool, extra ...*atlas.AtlasEntry) {
		var es []*atlas.AtlasEntry
		{
			kt := -1
			if tags {
				kt = 31
			}
			extra = append(append([]*atlas.AtlasEntry{}, extra...), mmEntry(KeyedMap{}, kt, sort))
		}
		tag := 100
		for _, s := range structs {
			b := atlas.BuildEntry(s)
			if tags && (reflect.TypeOf(s) == reflect.TypeOf(Inner{}) || reflect.TypeOf(s) == reflect.TypeOf(Circle{}) || reflect.TypeOf(s) == reflect.TypeOf(TwoMaps{}) || reflect.TypeOf(s) == reflect.TypeOf(Blob{}) ||
				reflect.TypeOf(s) == reflect.TypeOf(Wide{}) || reflect.TypeOf(s) == hugeT130 || reflect.TypeOf(s) == reflect.TypeOf(Big9a{}) || reflect.TypeOf(s) == reflect.TypeOf(Big9b{})) {
				b = b.UseTag(tag)
				tag += 1000
			}
			es = append(es, b.StructMap().AutogenerateWithSortingScheme(mode).Complete())
		}
		big9a, big9b, blob, circle, square := es[len(es)-5], es[len(es)-4], es[len(es)-3], es[len(es)-2], es[len(es)-1]
		es = append(es, atlas.BuildEntry((*Shape)(nil)).KeyedUnion().Of(map[string]*atlas.AtlasEntry{"circle": circle, "sq": square, "Tblob": blob, "big9a": big9a, "big9b": big9b}))
		tt, sqTag, optTag, wTag, nTag, dTag, inTag, compTag := -1, -1, -1, -1, -1, -1, -1, -1
		if tags {
			tt, sqTag, optTag, wTag, nTag, dTag, inTag, compTag = 23, 25, 27, 28, 29, 30, 33, 34
		}
		ksTr := 1
		if id == 4 {
			ksTr = 11
		}
		es = append(es, trEntry(KeyStruct{}, ksTr, -1), trEntry(TrNum(0), 2, tt), trEntry(TrBytes{}, 3, tt+1), trEntry(TrComp{}, 4, compTag), trEntry(TrSq{}, 5, sqTag), trEntry(TrMap{}, 6, -1), trEntry(TrOpt{}, 7, optTag), trEntry(TrW{}, 8, wTag), trEntry(TrN{}, 9, nTag), trEntry(Digest{}, 10, dTag), trEntry(TrIn{}, 12, inTag), trEntry(TrKey(""), 13, -1), trEntry(Stamp{}, 17, -1))
		es = append(es, extra...)
		a := atlas.MustBuild(es...)
		if id != 6 {
			a = a.WithMapMorphism(atlas.MapMorphism{KeySortMode: sort})
		}
		atlases = append(atlases, &atlasCfg{id: id, atl: a, entries: es, nReg: len(es), sort: sort})
	}
	// 0: no entries at all
	atlases = append(atlases, &atlasCfg{id: 0, atl: atlas.MustBuild(), sort: atlas.KeySortMode_Default})
	mk(1, atlas.KeySortMode_Default, atlas.KeySortMode_Default, false)
	mk(2, atlas.KeySortMode_RFC7049, atlas.KeySortMode_RFC7049, true)
	// 3: strings order; explicit struct map with renamed / ignored / nested-route fields for Emb; per-type map morphism
	embEntry := atlas.BuildEntry(Emb{}).StructMap().
		AddField("Z", atlas.StructMapEntry{SerialName: "zed"}).
		AddField("Inner.Y", atlas.StructMapEntry{SerialName: "why", OmitEmpty: true}).
		IgnoreKey("legacy").
		AddField("X", atlas.StructMapEntry{SerialName: "ex"}).Complete()
	mm := mmEntry(StrMap{}, -1, atlas.KeySortMode_RFC7049)
	// a per-type morphism on the unnamed type untyped maps have
	mmU := mmEntry(map[string]interface{}{}, -1, atlas.KeySortMode_RFC7049)
	{
		save := structs
		structs = []interface{}{Inner{}, WithPtr{}, Rec{}, Tagged{}, OmitAll{}, Nums{}, HasShape{}, HasNoAtlas{}, MapKeyed{}, TwoMaps{}, TwoTr{}, Wide{}, Fold{}, PaySum{}, reflect.New(hugeT130).Elem().Interface(), reflect.New(hugeT260).Elem().Interface(), HasStamp{}, Big9a{}, Big9b{}, Blob{}, Circle{}, Square{}}
		narrowEntry := atlas.BuildEntry(Narrow{}).StructMap().
			AddField("A", atlas.StructMapEntry{SerialName: "a", Type: reflect.TypeOf(int64(0))}).
			AddField("B", atlas.StructMapEntry{SerialName: "b", Type: reflect.TypeOf(uint64(0))}).
			AddField("C", atlas.StructMapEntry{SerialName: "c", Type: reflect.TypeOf(int(0))}).
			AddField("D", atlas.StructMapEntry{SerialName: "d", Type: reflect.TypeOf(uint(0))}).Complete()
		mk(3, atlas.KeySortMode_Strings, atlas.KeySortMode_Strings, true, embEntry, mm, mmU, narrowEntry)
		structs = save
	}
	// 4: like 1 plus an entry for the struct reached through an embedded pointer
	ep := atlas.BuildEntry(EmbPtr{}).StructMap().Autogenerate().Complete()
	mk(4, atlas.KeySortMode_Default, atlas.KeySortMode_Default, false, ep)
	// 6: built WITHOUT WithMapMorphism (the atlas default is whatever Build provides); one named map type with its own
	//    length-first order next to plain maps
	mk(6, atlas.KeySortMode_Default, atlas.KeySortMode_Default, false, mmEntry(StrMap{}, -1, atlas.KeySortMode_RFC7049))
	// 90: the chained transforms (not part of the generic loops over the zoo's atlases)
	{
		uzc := atlas.BuildEntry(Circle{}).StructMap().Autogenerate().Complete()
		uzInner := atlas.BuildEntry((*UzInner)(nil)).KeyedUnion().Of(map[string]*atlas.AtlasEntry{"c": uzc})
		uzOuter := atlas.BuildEntry((*UzOuter)(nil)).KeyedUnion().Of(map[string]*atlas.AtlasEntry{"u": uzInner, "c": uzc})
		es := []*atlas.AtlasEntry{trEntry(ChT{}, 14, -1), trEntry(ChU{}, 15, -1), trEntry(ChW{}, 16, -1), uzOuter}
		pool := append(append([]*atlas.AtlasEntry{}, es...), uzInner, uzc)
		atlases = append(atlases, &atlasCfg{id: 90, atl: atlas.MustBuild(es...), entries: pool, nReg: len(es), sort: atlas.KeySortMode_Default})
	}
	// 5: DERIVED from atlas 1 (which stays in use) with another default map order: same entries, independent configuration
	for _, a1 := range atlases {
		if a1.id == 1 {
			d := a1.atl.WithMapMorphism(atlas.MapMorphism{KeySortMode: atlas.KeySortMode_RFC7049})
			atlases = append(atlases, &atlasCfg{id: 5, atl: d, entries: a1.entries, nReg: a1.nReg, sort: atlas.KeySortMode_RFC7049})
		}
	}
}

// freshAtlases builds a new set of the hand-made atlas configurations (same ids, new Atlas values and entries).
func freshAtlases() []*atlasCfg {
	buildAtlases()
	save := atlases
	atlases = nil
	buildAtlases()
	out := atlases
	atlases = save
	return out
}

func sortName(m atlas.KeySortMode) string { return string(m) }

func routeStr(r atlas.ReflectRoute) string {
	if len(r) == 0 {
		return "-"
	}
	parts := make([]string, len(r))
	for i, x := range r {
		parts[i] = strconv.Itoa(x)
	}
	return strings.Join(parts, ".")
}

func describeEntry(e *atlas.AtlasEntry, pool []*atlas.AtlasEntry) string {
	tag := "-"
	if e.Tagged {
		tag = strconv.Itoa(e.Tag)
	}
	head := fmt.Sprintf("%d,%s,", tid(e.Type), tag)
	switch {
	case e.MarshalTransformFunc != nil || e.UnmarshalTransformFunc != nil:
		return head + fmt.Sprintf("tr=%d:%d:%d", entryTrID[e], tid(e.MarshalTransformTargetType), tid(e.UnmarshalTransformTargetType))
	case e.StructMap != nil:
		var fs []string
		for _, f := range e.StructMap.Fields {
			ft := -1
			if f.Type != nil {
				ft = tid(f.Type)
			}
			fs = append(fs, fmt.Sprintf("%x:%s:%s:%d:%s", f.SerialName, b01(f.Ignore), routeStr(f.ReflectRoute), ft, b01(f.OmitEmpty)))
		}
		if len(fs) == 0 {
			return head + "sm=-"
		}
		return head + "sm=" + strings.Join(fs, ";")
	case e.UnionKeyedMorphism != nil:
		var ms []string
		for _, name := range e.UnionKeyedMorphism.KnownMembers {
			member := e.UnionKeyedMorphism.Elements[name]
			idx := -1
			for i, p := range pool {
				if p == member {
					idx = i
				}
			}
			ms = append(ms, fmt.Sprintf("%x:%d", name, idx))
		}
		return head + "un=" + strings.Join(ms, ";")
	case e.MapMorphism != nil:
		if m, ok := entryMode[e]; ok {
			return head + "mm=" + sortName(m)
		}
		return head + "mm=" + sortName(e.MapMorphism.KeySortMode)
	}
	return head + "invalid"
}

// one atlas per shape family: autogenerated entries for every struct type of the family
func buildShapeAtlases() {
	for _, a := range atlases {
		if a.id >= 100 {
			return
		}
	}
	for k, fam := range shapeFamilies {
		var es []*atlas.AtlasEntry
		for _, t := range fam.all {
			es = append(es, atlas.BuildEntry(reflect.New(t).Elem().Interface()).StructMap().Autogenerate().Complete())
		}
		es = append(es, atlas.BuildEntry(myInt(0)).Transform().
			TransformMarshal(atlas.MakeMarshalTransformFunc(func(x myInt) (int, error) { return int(x), nil })).
			TransformUnmarshal(atlas.MakeUnmarshalTransformFunc(func(x int) (myInt, error) { return myInt(x), nil })).Complete())
		a, err := atlas.Build(es...)
		if err != nil {
			panic(err)
		}
		atlases = append(atlases, &atlasCfg{id: 100 + k, atl: a, entries: es, nReg: len(es), sort: atlas.KeySortMode_Default})
	}
}

// rootTypes are the types values are generated for.
func rootTypes() []reflect.Type {
	var ts []reflect.Type
	for _, v := range []interface{}{
		false, "", int(0), int8(0), int16(0), int32(0), int64(0), uint(0), uint8(0), uint16(0), uint32(0), uint64(0), uintptr(0),
		float32(0), float64(0), []byte{}, MyInt(0), MyI8(0), MyI16(0), MyU16(0), MyU32(0), MyStr(""), MyBool(false), MyF32(0), MyBytes{},
		Arr4{}, Arr0{}, [3]byte{}, []MyByte{}, [2]MyByte{},
		Inner{}, WithPtr{}, Emb{}, EmbPtr{}, Rec{}, Tagged{}, OmitAll{}, Nums{}, KeyStruct{}, TrNum(0), TrBytes{}, TrComp{}, HasShape{},
		NoAtlas{}, HasNoAtlas{}, MapKeyed{}, MapInt{}, StrMap{}, Circle{}, Square{}, TwoMaps{}, TrSq{}, []TrSq{}, map[string]TrSq{}, TrMap{}, []TrMap{}, map[string]TrMap{}, [2]TrMap{}, TrOpt{}, []TrOpt{}, TwoTr{}, Wide{}, TrW{}, TrN{}, []TrW{}, []TrN{}, Digest{}, []Digest{}, map[string]Digest{}, KeyedMap{}, []KeyedMap{}, Fold{}, []Fold{}, Blob{}, PaySum{}, []PaySum{}, Narrow{}, []uint64{}, map[string]Shape{}, [3]Shape{}, (*Circle)(nil), struct{ Circle }{}, TrIn{}, []TrIn{}, TrKey(""), map[TrKey]int{}, []TrKey{}, Stamp{}, HasStamp{}, []HasStamp{}, Big9a{}, Big9b{}, map[string]*int16{}, map[string]*uint8{}, reflect.New(hugeT130).Elem().Interface(), reflect.New(hugeT260).Elem().Interface(), map[string]NoAtlas{}, map[string][]NoAtlas{}, []map[string]int{}, (*int64)(nil), []int64{}, [2][]byte{}, [1]*[4]byte{}, [2]interface{}{}, [2]map[string]int{}, [2][]int{},
		[]int{}, []string{}, [2]string{}, [0]int{}, [][]int{}, []*int{}, []interface{}{}, map[string]int{}, map[string]interface{}{},
		map[string][]byte{}, map[string]map[string]string{}, map[KeyStruct]string{}, map[TrNum]int{}, map[int]int{}, map[MyStr]int{},
		(*int)(nil), (**string)(nil), (*[]int)(nil), (*Inner)(nil), (***Inner)(nil), (*interface{})(nil), []*Inner{}, map[string]*Rec{},
		[]Shape{}, []TrNum{}, []KeyStruct{}, [2]TrBytes{}, func() {}, make(chan int), complex64(0), (*int16)(nil),
	} {
		ts = append(ts, reflect.TypeOf(v))
	}
	ts = append(ts, reflect.TypeOf((*interface{})(nil)).Elem(), reflect.TypeOf((*Shape)(nil)).Elem())
	return ts
}

// zooDefs emits the T and A definition lines for the whole zoo.
func zooDefs() []string {
	buildAtlases()
	for _, t := range rootTypes() {
		tid(t)
	}
	for _, a := range atlases {
		for _, e := range a.entries {
			tid(e.Type)
		}
	}
	tid(reflect.TypeOf(myInt(0)))
	tid(reflect.TypeOf((*ChW)(nil)))
	tid(reflect.TypeOf((*ChU)(nil)))
	tid(reflect.TypeOf([]ChU{}))
	tid(reflect.TypeOf((*string)(nil)))
	tid(reflect.TypeOf((*UzOuter)(nil)).Elem())
	tid(reflect.TypeOf((*UzInner)(nil)).Elem())
	for _, fam := range shapeFamilies {
		for _, t := range fam.all {
			tid(t)
		}
	}
	buildShapeAtlases()
	var out []string
	// describing may register more types; iterate to a fixpoint
	for i := 0; i < len(typeByID); i++ {
		out = append(out, fmt.Sprintf("T %d %s", i, describeType(typeByID[i])))
	}
	for _, a := range atlases {
		var es []string
		for i, e := range a.entries {
			es = append(es, "r"+b01(i < a.nReg)+","+describeEntry(e, a.entries))
		}
		body := "-"
		if len(es) > 0 {
			body = strings.Join(es, "|")
		}
		out = append(out, fmt.Sprintf("A %d %s %s", a.id, sortName(a.sort), body))
	}
	// dynamic types an untyped slot receives
	var emptyIface interface{}
	_ = emptyIface
	out = append(out, fmt.Sprintf("Y %d %d %d %d %d %d %d %d %d", tid(reflect.TypeOf("")), tid(reflect.TypeOf([]byte{})),
		tid(reflect.TypeOf(false)), tid(reflect.TypeOf(int(0))), tid(reflect.TypeOf(uint64(0))), tid(reflect.TypeOf(float64(0))),
		tid(reflect.TypeOf(map[string]interface{}{})), tid(reflect.TypeOf([]interface{}{})), tid(reflect.TypeOf((*interface{})(nil)).Elem())))
	seen := map[string]bool{}
	for _, l := range out {
		seen[strings.SplitN(l, " ", 3)[0]+" "+strings.SplitN(l, " ", 3)[1]] = true
		_ = l
	}
	for i := 0; i < len(typeByID); i++ {
		if !seen[fmt.Sprintf("T %d", i)] {
			out = append(out, fmt.Sprintf("T %d %s", i, describeType(typeByID[i])))
		}
	}
	zooFrozen = true
	return out
}

// the hand-made atlas configurations (ids < 100); the per-shape-family atlases have ids >= 100
func zooAtlases() []*atlasCfg {
	buildAtlases()
	var out []*atlasCfg
	for _, a := range atlases {
		if a.id < 90 {
			out = append(out, a)
		}
	}
	return out
}
