"""Known findings: committed in known_findings.json, never written at run time."""
import json, os, re

ROOT = os.path.dirname(os.path.dirname(os.path.abspath(__file__)))
_DB = None

def db():
    global _DB
    if _DB is None:
        p = os.path.join(ROOT, "known_findings.json")
        _DB = json.load(open(p)) if os.path.exists(p) else {"findings": []}
    return _DB

# class predicates: (case_body, I, M) -> bool
CLASSES = {}

def klass(name):
    def deco(f):
        CLASSES[name] = f
        return f
    return deco

def match(pid, body, I, M):
    for f in db()["findings"]:
        if f.get("status") != "open" or f["property"] != pid:
            continue
        pred = CLASSES.get(f["class"])
        if pred and pred(body, I, M, f):
            return f["id"]
    return None

def describe(pid, fid):
    for f in db()["findings"]:
        if f["id"] == fid and f["property"] == pid:
            return "%s: %s" % (fid, f["description"])
    return fid

@klass("case_regex")
def _case_regex(body, I, M, f):
    return re.search(f["regex"], body) is not None
