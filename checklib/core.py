"""Orchestration shared by all property checks (see DESIGN.md §5)."""
import os, re, sys, json, time, subprocess, shutil, fcntl, glob

import props
import known

GOENV = dict(os.environ, GOFLAGS="-mod=mod", GOPROXY="off", GOSUMDB="off", GOTOOLCHAIN="local",
             CGO_ENABLED=os.environ.get("CGO_ENABLED", "1"))
ALLOWED_AXIOMS = {"propext", "Classical.choice", "Quot.sound"}
FORBIDDEN = re.compile(r"\bsorry\b|\badmit\b|^\s*axiom\s|native_decide|bv_decide|implemented_by|\bunsafe\s|maxHeartbeats\s+0\b")

def log(*a):
    print(*a, flush=True)

class Lock:
    def __init__(self, path):
        self.path = path
    def __enter__(self):
        self.f = open(self.path, "w")
        fcntl.flock(self.f, fcntl.LOCK_EX)
    def __exit__(self, *a):
        fcntl.flock(self.f, fcntl.LOCK_UN)
        self.f.close()

def sh(cmd, cwd=None, env=None, timeout=None, stdin=None):
    p = subprocess.run(cmd, cwd=cwd, env=env, stdout=subprocess.PIPE, stderr=subprocess.STDOUT,
                       timeout=timeout, stdin=stdin, text=True, errors="replace")
    out = "\n".join(l for l in p.stdout.splitlines() if "conda.cli.condarc" not in l)
    return p.returncode, out

# ---------------------------------------------------------------- builds

# The tree under verification.  Always /repo for the registered commands; VERIF_REPO exists only so that the machinery
# itself can be developed against a pristine copy while seeded changes are being applied to /repo.
REPO = os.environ.get("VERIF_REPO", "/repo")

def modfile_args(root, gdir):
    """go.sum next to the module; when REPO is not /repo, an alternative go.mod whose replace points at it"""
    shutil.copyfile(os.path.join(REPO, "go.sum"), os.path.join(gdir, "go.sum"))
    if REPO == "/repo":
        return []
    alt = os.path.join(root, "build", "alt_" + os.path.basename(gdir) + ".mod")
    open(alt, "w").write(open(os.path.join(gdir, "go.mod")).read().replace("=> /repo", "=> " + REPO))
    shutil.copyfile(os.path.join(REPO, "go.sum"), alt[:-4] + ".sum")
    return ["-modfile=" + alt]

def build_harness(root):
    """Build the Go harness against /repo's current working tree."""
    os.makedirs(os.path.join(root, "build"), exist_ok=True)
    hdir = os.path.join(root, "harness")
    with Lock(os.path.join(root, "build", ".golock")):
        mf = modfile_args(root, hdir)
        rc, out = sh(["go", "build"] + mf + ["-tags", "verif", "-o", os.path.join(root, "build", "harness"), "."],
                     cwd=hdir, env=GOENV, timeout=600)
        if rc == 0:
            # the command-line converters, built from the working tree too (C10)
            rc2, out2 = sh(["go", "build", "-o", os.path.join(root, "build", "refmt-cli"), "./cmd/refmt"], cwd=REPO, env=GOENV, timeout=600)
            if rc2 != 0:
                rc, out = rc2, out + out2
    return rc == 0, out

def build_extract(root):
    """Regenerate RefmtModel/Gen/*.lean from /repo's working tree."""
    xdir = os.path.join(root, "tools", "extract")
    if not os.path.isdir(xdir):
        return True, "no extractor"
    with Lock(os.path.join(root, "build", ".golock")):
        mf = modfile_args(root, xdir)
        rc, out = sh(["go", "build"] + mf + ["-o", os.path.join(root, "build", "extract"), "."], cwd=xdir, env=GOENV, timeout=600)
        if rc != 0:
            return False, out
        gen = os.path.join(root, "lean", "RefmtModel", "Gen")
        os.makedirs(gen, exist_ok=True)
        rc, out = sh([os.path.join(root, "build", "extract"), REPO, gen], timeout=300)
    return rc == 0, out

def lake_build(root, targets, timeout=3000):
    with Lock(os.path.join(root, "build", ".lakelock")):
        rc, out = sh(["lake", "build"] + targets, cwd=os.path.join(root, "lean"), timeout=timeout)
    return rc == 0, out

# ---------------------------------------------------------------- proofs

def strip_comments(src):
    src = re.sub(r"/-.*?-/", lambda m: "\n" * m.group(0).count("\n"), src, flags=re.S)
    src = re.sub(r"--.*", "", src)
    return src

def import_closure(root, mod):
    """Lean source files (relative module names) transitively imported by `mod` inside this project."""
    seen, todo = set(), [mod]
    while todo:
        m = todo.pop()
        if m in seen:
            continue
        path = os.path.join(root, "lean", m.replace(".", "/") + ".lean")
        if not os.path.exists(path):
            continue
        seen.add(m)
        for line in open(path, encoding="utf-8"):
            mm = re.match(r"\s*import\s+(\S+)", line)
            if mm and mm.group(1).split(".")[0] in ("RefmtModel", "RefmtProofs", "Driver"):
                todo.append(mm.group(1))
    return seen

def forbidden_hits(root, mod):
    """sorry/admit/axiom/native_decide/... in the property's module, everything it imports, and the driver."""
    hits = []
    mods = import_closure(root, mod) | import_closure(root, "Driver.Main")
    for m in sorted(mods):
        path = os.path.join(root, "lean", m.replace(".", "/") + ".lean")
        src = strip_comments(open(path, encoding="utf-8").read())
        for n, line in enumerate(src.splitlines(), 1):
            if FORBIDDEN.search(line):
                hits.append("%s:%d: %s" % (os.path.relpath(path, root), n, line.strip()))
    return hits

def theorem_spans(path):
    """[(name, first_line, last_line)] for every `theorem` in a Lean file."""
    lines = open(path, encoding="utf-8").read().splitlines()
    starts = []
    for i, l in enumerate(lines, 1):
        m = re.match(r"\s*(?:private\s+|protected\s+)?theorem\s+([^\s:({\[]+)", l)
        if m:
            starts.append((m.group(1), i))
    spans = []
    for k, (name, s) in enumerate(starts):
        e = starts[k + 1][1] - 1 if k + 1 < len(starts) else len(lines)
        spans.append((name, s, e))
    return spans

def run_proofs(root, pid, cfg, work):
    """Build the property's theorem module, audit axioms, grep for escapes."""
    res = dict(obligations=0, discharged=0, failed=[], axioms={}, bad_axioms={}, forbidden=[],
               checker_cmd="", missing=[], build_log="")
    mod = cfg.get("lean_module")
    required = list(cfg.get("theorems", []))
    res["obligations"] = len(required)
    if not mod:
        return res
    relpath = mod.replace(".", "/") + ".lean"
    path = os.path.join(root, "lean", relpath)
    res["checker_cmd"] = "cd lean && lake build %s && lake env lean <audit: #print axioms ...>" % mod
    if not os.path.exists(path):
        res["failed"] = required
        res["missing"] = required
        return res
    extra = list(cfg.get("extra_modules", []))
    ok, out = lake_build(root, [mod] + extra)
    res["build_log"] = out[-6000:]
    ns = cfg.get("lean_namespace", "")
    spans = theorem_spans(path)
    declared = {n for n, _, _ in spans}
    for em in extra:
        ep = os.path.join(root, "lean", em.replace(".", "/") + ".lean")
        if os.path.exists(ep):
            declared |= {n for n, _, _ in theorem_spans(ep)}
    failed = set()
    for t in required:
        short = t.split(".")[-1]
        if short not in declared and t not in declared:
            failed.add(t)
            res["missing"].append(t)
    if not ok:
        errlines = [int(m.group(1)) for m in re.finditer(re.escape(relpath) + r":(\d+):\d+: error", out)]
        hit = False
        for name, s, e in spans:
            if any(s <= ln <= e for ln in errlines):
                hit = True
                for t in required:
                    if t.split(".")[-1] == name:
                        failed.add(t)
        # regenerated-fact obligations live in RefmtProofs/Facts.lean
        facts_rel = "RefmtProofs/Facts.lean"
        facts_err = [int(m.group(1)) for m in re.finditer(re.escape(facts_rel) + r":(\d+):\d+: error", out)]
        if facts_err:
            fspans = theorem_spans(os.path.join(root, "lean", facts_rel))
            for name, s_, e_ in fspans:
                if any(s_ <= ln <= e_ for ln in facts_err):
                    for t in required:
                        if t == "Refmt.Facts." + name:
                            failed.add(t)
                            hit = True
        if not hit:
            # the failure is in an imported module (model, lemmas or regenerated facts): nothing is established
            failed.update(required)
    # axiom audit for the theorems that did build
    if ok:
        audit = os.path.join(work, "Audit_%s.lean" % pid)
        with open(audit, "w") as f:
            f.write("import %s\n" % mod)
            for em in extra:
                f.write("import %s\n" % em)
            for t in required:
                f.write("#print axioms %s\n" % t)
        with Lock(os.path.join(root, "build", ".lakelock")):
            rc, aout = sh(["lake", "env", "lean", audit], cwd=os.path.join(root, "lean"), timeout=1200)
        for t in required:
            m = re.search(r"'%s' depends on axioms: \[([^\]]*)\]" % re.escape(t), aout)
            if m:
                ax = [a.strip() for a in m.group(1).replace("\n", " ").split(",") if a.strip()]
            elif re.search(r"'%s' does not depend on any axioms" % re.escape(t), aout):
                ax = []
            else:
                failed.add(t)
                res["axioms"][t] = ["<not found>"]
                continue
            res["axioms"][t] = ax
            bad = [a for a in ax if a not in ALLOWED_AXIOMS]
            if bad:
                res["bad_axioms"][t] = bad
                failed.add(t)
    res["forbidden"] = forbidden_hits(root, mod)
    if res["forbidden"]:
        failed.update(required)
    res["failed"] = sorted(failed)
    res["discharged"] = len(required) - len(failed)
    return res

# ---------------------------------------------------------------- tie

def parse_line(line):
    parts = line.rstrip("\n").split(" ")
    d = {}
    rest = []
    for p in parts[1:]:
        if "=" in p and re.match(r"^[A-Za-z][A-Za-z0-9_]*=", p):
            k, v = p.split("=", 1)
            d[k] = v
        else:
            rest.append(p)
    d["_rest"] = " ".join(rest)
    return parts[0], d

def run_driver(root, cases_path, out_path, timeout):
    with open(cases_path) as fin, open(out_path, "w") as fout:
        p = subprocess.run([os.path.join(root, "lean", ".lake", "build", "bin", "driver")], stdin=fin, stdout=fout,
                           stderr=subprocess.PIPE, timeout=timeout)
    return p.returncode

def build_harness_race(root):
    """The same harness built with the race detector (C18)."""
    hdir = os.path.join(root, "harness")
    with Lock(os.path.join(root, "build", ".golock")):
        mf = modfile_args(root, hdir)
        rc, out = sh(["go", "build"] + mf + ["-race", "-tags", "verif", "-o", os.path.join(root, "build", "harness-race"), "."],
                     cwd=hdir, env=GOENV, timeout=900)
    return rc == 0, out

def run_harness(root, cases_path, out_path, timeout, per_case_timeout=60, binary="harness"):
    """Run the harness; if it dies or hangs on a case, record that and resume after it."""
    lines = open(cases_path).read().splitlines()
    results = {}
    pos = 0
    hbin = os.path.join(root, "build", binary)
    env = dict(os.environ, GOMEMLIMIT="6GiB", GOTRACEBACK="single", REFMT_CLI=os.path.join(root, "build", "refmt-cli"),
               GORACE="halt_on_error=1 exitcode=66")
    t_end = time.time() + timeout
    hangs = 0
    while pos < len(lines):
        chunk = lines[pos:]
        tmp_in = out_path + ".in"
        with open(tmp_in, "w") as f:
            f.write("\n".join(chunk) + "\n")
        status = "ok"
        with open(tmp_in) as fin, open(out_path + ".part", "w") as fout:
            # watchdog: the harness answers every operation on its own line (flushed); no new output for
            # `per_case_timeout` seconds means the current operation hangs
            p = subprocess.Popen(["bash", "-c", "ulimit -v 12000000; exec %s run" % hbin], stdin=fin, stdout=fout,
                                 stderr=subprocess.DEVNULL, env=env)
            last_size, last_change = -1, time.time()
            while True:
                try:
                    p.wait(timeout=1.0)
                    break
                except subprocess.TimeoutExpired:
                    sz = os.path.getsize(out_path + ".part")
                    now = time.time()
                    if sz != last_size:
                        last_size, last_change = sz, now
                    elif now - last_change > per_case_timeout:
                        p.kill()
                        p.wait()
                        status = "HANG"
                        break
                    elif now > t_end + per_case_timeout:
                        # still answering, but the stream's time budget is used up: not a hang, the rest is not run
                        p.kill()
                        p.wait()
                        status = "BUDGET"
                        break
            if status != "HANG":
                if p.returncode == 66:
                    status = "RACE-DETECTED"   # the Go race detector halted the process (GORACE exitcode=66)
                elif p.returncode != 0:
                    status = "CRASH"
        got = open(out_path + ".part").read().splitlines()
        n = 0
        for l in got:
            cid = l.split(" ", 1)[0]
            if n < len(chunk) and chunk[n].split(" ", 1)[0] == cid and " " in l:
                results[cid] = l
                n += 1
            else:
                break
        pos += n
        if status == "BUDGET":
            for l in lines[pos:]:
                c = l.split(" ", 1)[0]
                results[c] = "%s I=BUDGET" % c
            break
        if pos < len(lines) and status != "ok" or (status == "ok" and n < len(chunk)):
            cid = lines[pos].split(" ", 1)[0]
            results[cid] = "%s I=%s" % (cid, status if status != "ok" else "CRASH")
            pos += 1
            hangs = hangs + 1 if status == "HANG" else hangs
            if status == "HANG" and (time.time() > t_end or hangs >= 3):
                for l in lines[pos:]:
                    c = l.split(" ", 1)[0]
                    results[c] = "%s I=NOTRUN" % c
                break
    with open(out_path, "w") as f:
        for l in lines:
            cid = l.split(" ", 1)[0]
            f.write(results.get(cid, "%s I=MISSING" % cid) + "\n")
    for x in (out_path + ".in", out_path + ".part"):
        if os.path.exists(x):
            os.remove(x)

def gen_cases(root, stream, tier, seed, path):
    with open(path, "w") as f:
        p = subprocess.run([os.path.join(root, "build", "harness"), "gen", stream, tier, str(seed)], stdout=f,
                           stderr=subprocess.PIPE, timeout=(900 if tier == "quick" else 6000))
    if p.returncode != 0:
        raise RuntimeError("generator failed for stream %s: %s" % (stream, p.stderr.decode()[-2000:]))

def corpus_lines(root, pid, stream):
    path = os.path.join(root, "corpus", "%s.%s.txt" % (pid, stream))
    if not os.path.exists(path):
        return []
    return [l for l in open(path).read().splitlines() if l.strip() and not l.startswith("#")]

def compare_stream(root, pid, stream_cfg, cases_path, work, tier):
    """Returns dict with counts, concrete violations, correspondence breaks, samples."""
    name = stream_cfg["name"]
    ipath = os.path.join(work, name + ".I")
    mpath = os.path.join(work, name + ".M")
    tmo = stream_cfg.get("timeout", 1500 if tier == "quick" else 6000)
    if stream_cfg.get("binary") == "harness-race":
        ok, out = build_harness_race(root)
        if not ok:
            raise RuntimeError("race build failed: " + out[-2000:])
    run_harness(root, cases_path, ipath, tmo, binary=stream_cfg.get("binary", "harness"))
    run_driver(root, cases_path, mpath, tmo)
    rule = props.RULES[stream_cfg.get("rule", "default")]
    stats = dict(evaluations=0, nontrivial=set(), concrete=[], corr=[], samples=[], hist={}, known={})
    with open(cases_path) as fc, open(ipath) as fi, open(mpath) as fm:
        for case, il, ml in zip(fc, fi, fm):
            case = case.rstrip("\n")
            cid, I = parse_line(il)
            mid, M = parse_line(ml)
            if I.get("I") == "BUDGET":
                # the stream's time budget ran out before this operation: not run, not judged
                stats["budget_skipped"] = stats.get("budget_skipped", 0) + 1
                continue
            stats["evaluations"] += 1
            body = case.split(" ", 1)[1] if " " in case else case
            v = rule(body, I, M)   # dict(corr_ok, prop_ok, nontrivial, bucket, why)
            b = v.get("bucket", "?")
            stats["hist"][b] = stats["hist"].get(b, 0) + 1
            if v.get("nontrivial"):
                stats["nontrivial"].add(hash(body))
            if len(stats["samples"]) < 6 and v.get("nontrivial") and stats["evaluations"] % 97 == 1:
                stats["samples"].append(dict(case=body[:300], impl=il.strip()[:300], model=ml.strip()[:300]))
            if not v["prop_ok"]:
                kf = known.match(pid, body, I, M)
                if kf:
                    stats["known"].setdefault(kf, []).append(body)
                else:
                    stats["concrete"].append(dict(case=body, impl=il.strip(), model=ml.strip(), why=v.get("why", "")))
            elif not v["corr_ok"]:
                kf = known.match(pid, body, I, M)
                if kf:
                    stats["known"].setdefault(kf, []).append(body)
                else:
                    stats["corr"].append(dict(case=body, impl=il.strip(), model=ml.strip(), why=v.get("why", "")))
    if not stats["samples"]:
        with open(cases_path) as fc:
            for i, case in enumerate(fc):
                if i >= 3:
                    break
                stats["samples"].append(dict(case=case.strip()[:300]))
    return stats

def shrink_key(v):
    return len(v["case"])

# ---------------------------------------------------------------- main entry

def run_property(root, pid, tier, seed, replay, no_proofs=False):
    t0 = time.time()
    cfg = props.PROPS[pid]
    work = os.path.join(root, "work", pid)
    shutil.rmtree(work, ignore_errors=True)
    os.makedirs(work, exist_ok=True)
    os.makedirs(os.path.join(root, "build"), exist_ok=True)
    os.makedirs(os.path.join(root, "evidence"), exist_ok=True)
    os.makedirs(os.path.join(root, "replays"), exist_ok=True)
    problems = []     # structural failures (builds)
    # 1. regenerate facts, build harness + driver
    ok, out = build_extract(root)
    if not ok:
        problems.append(("extract", out[-3000:]))
    ok, out = build_harness(root)
    if not ok:
        problems.append(("harness-build", out[-3000:]))
    ok, out = lake_build(root, ["driver"])
    if not ok:
        problems.append(("driver-build", out[-3000:]))
    # 2. proofs
    if no_proofs:
        proof = dict(obligations=len(cfg.get("theorems", [])), discharged=len(cfg.get("theorems", [])), failed=[], axioms={},
                     bad_axioms={}, forbidden=[], checker_cmd="(skipped)", missing=[], build_log="")
    else:
        proof = run_proofs(root, pid, cfg, work)
    # 3. tie
    all_stats = []
    total_eval = 0
    nontrivial = 0
    concrete, corr, samples, hist, knownhits = [], [], [], {}, {}
    if not any(p[0] in ("harness-build", "driver-build") for p in problems):
        for sc in cfg.get("streams", []):
            cases_path = os.path.join(work, sc["name"] + ".cases")
            if replay:
                rp = json.load(open(replay))
                lines = [c for c in rp.get("cases", []) if c.get("stream") == sc["name"]]
                with open(cases_path, "w") as f:
                    for i, c in enumerate(lines, 1):
                        f.write("%d %s\n" % (i, c["case"]))
                if not lines:
                    continue
            else:
                gen_path = cases_path + ".gen"
                try:
                    gen_cases(root, sc["gen"], tier, seed, gen_path)
                except Exception as e:   # the generators drive the real code for pruning: a crash or hang there is a finding too
                    problems.append(("generator:" + sc["name"], str(e)[-1500:]))
                    continue
                cl = corpus_lines(root, pid, sc["name"])
                with open(cases_path, "w") as f:
                    n = 0
                    for l in cl:
                        n += 1
                        f.write("%d %s\n" % (n, l))
                    for l in open(gen_path):
                        n += 1
                        f.write("%d %s" % (n, l.split(" ", 1)[1]))
                os.remove(gen_path)
            try:
                st = compare_stream(root, pid, sc, cases_path, work, tier)
            except Exception as e:
                problems.append(("stream:" + sc["name"], str(e)[-1500:]))
                continue
            total_eval += st["evaluations"]
            nontrivial += len(st["nontrivial"])
            for c in st["concrete"]:
                c["stream"] = sc["name"]
            for c in st["corr"]:
                c["stream"] = sc["name"]
            concrete += st["concrete"]
            corr += st["corr"]
            samples += st["samples"][:4]
            for k, v in st["hist"].items():
                hist[sc["name"] + ":" + k] = v
            for k, v in st["known"].items():
                knownhits.setdefault(k, []).extend(v)
            if tier == "quick" or True:
                try:
                    os.remove(cases_path)
                except OSError:
                    pass
    # 4. verdict
    for kf, cases in sorted(knownhits.items()):
        log("KNOWN-FINDING: property=%s %s (%d cases, e.g. %s)" % (pid, known.describe(pid, kf), len(cases), cases[0][:120]))
    rc = 0
    replay_path = None
    violation_kind = None
    stale = os.path.join(root, "replays", "%s-%s-%d.json" % (pid, tier, seed))
    if os.path.exists(stale) and not replay:
        os.remove(stale)
    if concrete:
        concrete.sort(key=shrink_key)
        replay_path = os.path.join(root, "replays", "%s-%s-%d.json" % (pid, tier, seed))
        corr.sort(key=shrink_key)
        json.dump(dict(property=pid, kind="concrete", tier=tier, seed=seed, cases=concrete[:20],
                       total_concrete=len(concrete), correspondence_breaks=len(corr),
                       correspondence_breaks_sample=corr[:10]), open(replay_path, "w"), indent=1)
        log("VIOLATION property=%s replay=%s" % (pid, replay_path))
        log("  first: %s" % json.dumps(concrete[0])[:600])
        rc = 1
        violation_kind = "concrete"
    elif corr or proof["failed"] or problems:
        replay_path = os.path.join(root, "replays", "%s-%s-%d.json" % (pid, tier, seed))
        corr.sort(key=shrink_key)
        json.dump(dict(property=pid, kind="unproved", tier=tier, seed=seed,
                       failed_theorems=proof["failed"], missing_theorems=proof["missing"],
                       bad_axioms=proof["bad_axioms"], forbidden=proof["forbidden"],
                       build_problems=problems, proof_log=proof["build_log"][-3000:],
                       correspondence_breaks=len(corr), cases=corr[:20]), open(replay_path, "w"), indent=1)
        log("VIOLATION property=%s replay=%s no-failing-input-found" % (pid, replay_path))
        if proof["failed"]:
            log("  theorems not checked: %s" % ", ".join(proof["failed"][:10]))
        if corr:
            log("  correspondence breaks: %d, first: %s" % (len(corr), json.dumps(corr[0])[:600]))
        for p in problems:
            log("  build problem: %s: %s" % (p[0], p[1][-800:]))
        rc = 1
        violation_kind = "unproved"
    # 5. evidence
    level = cfg["level"]
    cov = dict(
        obligations=proof["obligations"], discharged=proof["discharged"],
        checker_cmd=proof["checker_cmd"] or "n/a",
        trusted_base=cfg.get("trusted_base", props.TRUSTED_BASE),
        theorems=cfg.get("theorems", []), axioms=proof["axioms"],
        evaluations=total_eval, distinct_nontrivial=nontrivial,
        rule=cfg.get("rule_text", ""), samples=samples[:8] or [dict(note="no tie stream for this property")],
        histogram=hist, exhaustive=bool(cfg.get("exhaustive", False)),
        known_findings_hit={k: len(v) for k, v in knownhits.items()},
        correspondence_breaks=len(corr), concrete_violations=len(concrete),
        explanation=cfg.get("explanation", ""),
    )
    ev = dict(property_id=pid, tier=tier, seed=seed, level=level, coverage=cov,
              assumptions=cfg.get("assumptions", props.ASSUMPTIONS), wall_s=round(time.time() - t0, 2),
              violations=(len(concrete) if concrete else (1 if rc else 0)))
    json.dump(ev, open(os.path.join(root, "evidence", pid + ".json"), "w"), indent=1)
    log("%s %s tier=%s seed=%d proofs=%d/%d cases=%d nontrivial=%d corr_breaks=%d concrete=%d known=%d wall=%.1fs" % (
        "FAIL" if rc else "PASS", pid, tier, seed, proof["discharged"], proof["obligations"], total_eval, nontrivial,
        len(corr), len(concrete), sum(len(v) for v in knownhits.values()), time.time() - t0))
    return rc
