"""Per-property configuration: Lean theorems, tie streams, comparison rules."""

TRUSTED_BASE = [
    "Lean 4.33.0 kernel; axioms per theorem limited to propext, Classical.choice, Quot.sound (audited by #print axioms on every run)",
    "hand-written Lean model of the Go code (lean/RefmtModel), tied to /repo by the correspondence harness on every run",
    "Go toolchain and standard library (reflect, strconv, unicode, sort, io, bytes) as modelled, not verified",
    "line-protocol glue: lean/Driver/Proto.lean and harness/proto.go",
]
ASSUMPTIONS = [
    "the model agrees with the implementation outside the generated correspondence streams as it does inside them",
    "64-bit int platform",
]

def rule_default(body, I, M):
    i, m = I.get("I"), M.get("M")
    s = M.get("S")
    corr_ok = (i == m) and I.get("_rest", "") == M.get("_rest", "")
    prop_ok = True
    why = ""
    if s is not None and i != s:
        prop_ok = False
        why = "implementation %s differs from specification %s" % (i, s)
    o = I.get("O")
    if o is not None and o != "ok":
        prop_ok = False
        why = "oracle: " + o
    if i is not None and (i.startswith("CRASH") or i.startswith("HANG") or i.startswith("HARNESS-PANIC")):
        prop_ok = False
        why = "implementation " + i
    if not corr_ok and not why:
        why = "implementation and model differ"
    return dict(corr_ok=corr_ok, prop_ok=prop_ok, nontrivial=len(i or "") >= 2, bucket=(i or "?")[-1:], why=why)

RULES = {"default": rule_default}

PROPS = {}

PROPS["C14"] = dict(
    level="proof",
    lean_module="RefmtProofs.Props.C14",
    theorems=["Refmt.C14.cbor_accepts_exactly", "Refmt.C14.json_accepts_exactly", "Refmt.C14.pretty_accepts_exactly",
              "Refmt.C14.enc_no_panic", "Refmt.C14.rec_reject_dead", "Refmt.C14.rec_alive", "Refmt.C14.stackOk_step"],
    streams=[dict(name="acc", gen="acc")],
    title="encoders accept exactly the well-formed token sequences",
    claim="For all token lists (any length, any nesting) each encoder model's per-step answers (continue/done/error/panic) equal the "
          "pushdown recogniser's; the recogniser rejects exactly at the first token with no well-formed continuation; so no encoder "
          "panics. Tie: exhaustive prefix-pruned token trees + random deep sequences through the real Step functions.",
    rule_text="token sequences: prefix-pruned exhaustive tree over the token alphabet for each of the three encoders, plus random deep "
              "mostly-well-formed sequences with injected faults; non-trivial = at least two steps taken; distinct by case text",
)
