"""Per-property configuration: Lean theorems, tie streams, comparison rules."""

TRUSTED_BASE = [
    "Lean 4.33.0 kernel; axioms per theorem limited to propext, Classical.choice, Quot.sound (audited by #print axioms on every run)",
    "hand-written Lean model of the Go code (lean/RefmtModel), tied to /repo by the correspondence harness on every run",
    "Go toolchain and standard library (reflect, strconv, unicode, sort, io, bytes) as modelled, not verified",
    "line-protocol glue: lean/Driver/Proto.lean and harness/proto.go",
]
ASSUMPTIONS = [
    "the model agrees with the implementation outside the generated correspondence streams as it does inside them",
    "64-bit int platform",
]

def rule_default(body, I, M):
    i, m = I.get("I"), M.get("M")
    s = M.get("S")
    corr_ok = (i == m) and I.get("_rest", "") == M.get("_rest", "")
    prop_ok = True
    why = ""
    if s is not None and i != s:
        prop_ok = False
        why = "implementation %s differs from specification %s" % (i, s)
    o = I.get("O")
    if o is not None and o != "ok":
        prop_ok = False
        why = "oracle: " + o
    if i is not None and (i.startswith("CRASH") or i.startswith("RACE-DETECTED") or i.startswith("HANG") or i.startswith("HARNESS-PANIC")):
        prop_ok = False
        why = "implementation " + i
    if not corr_ok and not why:
        why = "implementation and model differ"
    return dict(corr_ok=corr_ok, prop_ok=prop_ok, nontrivial=len(i or "") >= 2, bucket=(i or "?")[-1:], why=why)

def _bad_impl(i):
    return i is not None and (i.startswith("CRASH") or i.startswith("RACE-DETECTED") or i.startswith("HANG") or i.startswith("HARNESS-PANIC") or i in ("MISSING", "NOTRUN"))

def rule_cborenc(body, I, M):
    """C02: flags, write calls and the decoder round trip; S/SR present only for well-formed input."""
    corr_ok = all(I.get(k) == M.get(k) for k in ("I", "W", "R")) if True else False
    corr_ok = (I.get("I") == M.get("M")) and I.get("W") == M.get("W") and I.get("R") == M.get("R")
    prop_ok, why = True, ""
    if _bad_impl(I.get("I")):
        return dict(corr_ok=False, prop_ok=False, nontrivial=True, bucket="crash", why="implementation " + I.get("I"))
    if "S" in M:
        n = len(body.split(" ", 1)[1].split(","))
        if I.get("I") != "." * (n - 1) + "D":
            prop_ok, why = False, "well-formed sequence not accepted with done exactly on the last token: " + str(I.get("I"))
        elif (I.get("W") or "").replace("|", "").replace("-", "") != M["S"].replace("-", ""):
            prop_ok, why = False, "bytes differ from the RFC 7049 encoding " + M["S"][:80]
        elif I.get("R") != M.get("SR"):
            prop_ok, why = False, "decoding the output does not give back the tokens: %s vs %s" % (I.get("R"), M.get("SR"))
    if not corr_ok and not why:
        why = "implementation and model differ"
    return dict(corr_ok=corr_ok, prop_ok=prop_ok, nontrivial=("S" in M), bucket=("wf" if "S" in M else "other"), why=why)

def rule_cbordec(body, I, M):
    """C04: tokens / rest / outcome against the model (exact class, steps) and the reference parser."""
    i, m, s = I.get("I", ""), M.get("M", ""), M.get("S", "")
    if _bad_impl(i):
        return dict(corr_ok=False, prop_ok=False, nontrivial=True, bucket="crash", why="implementation " + i)
    corr_ok = (i == m) and I.get("n") == M.get("n")
    iok = i.endswith("/ok")
    if s == "E":
        prop_ok = not iok and not i.endswith("/panic") and not i.endswith("/loop")
        why = "" if prop_ok else "accepted (or panicked/looped on) bytes the reference decoder rejects: " + i
    else:
        prop_ok = (i == s)
        why = "" if prop_ok else "well-formed item decoded as %s, reference says %s" % (i, s)
    if not corr_ok and not why:
        why = "implementation and model differ"
    return dict(corr_ok=corr_ok, prop_ok=prop_ok, nontrivial=(iok and "," in i) or (not iok and len(body) > 14),
                bucket=i.rsplit("/", 1)[-1], why=why)

def _toks(x):
    return (x or "").rsplit("/", 2)

def rule_jsondec(body, I, M):
    """C05: tokens/rest/outcome vs the model (exact), vs the Lean reference parser (S) and vs encoding/json (O)."""
    i, m, s = I.get("I", ""), M.get("M", ""), M.get("S", "")
    if _bad_impl(i):
        return dict(corr_ok=False, prop_ok=False, nontrivial=True, bucket="crash", why="implementation " + i)
    corr_ok = (i == m) and I.get("n") == M.get("n")
    iok = i.endswith("/ok")
    why = ""
    if s == "E":
        prop_ok = not iok and not i.endswith("/panic") and not i.endswith("/loop")
        if not prop_ok:
            why = "accepted (or panicked/looped on) a text the reference reader rejects: " + i
    else:
        it, st = _toks(i), _toks(s)
        pb = int(M.get("pb", "0") or 0)
        prop_ok = iok and it[0] == st[0] and int(it[1]) + pb == int(st[1])
        if not prop_ok:
            why = "valid JSON read as %s, reference says %s" % (i, s)
    o = I.get("O", "ok")
    if o != "ok":
        prop_ok = False
        why = "encoding/json oracle: " + o
    if not corr_ok and not why:
        why = "implementation and model differ"
    return dict(corr_ok=corr_ok, prop_ok=prop_ok, nontrivial=(iok and "," in i) or (not iok and len(body) > 12),
                bucket=i.rsplit("/", 1)[-1], why=why)

def rule_jsonenc(body, I, M):
    """C03: flags, write calls, decoder round trip vs model; output validity/value/pretty vs oracle; round trip vs retype."""
    i = I.get("I", "")
    if _bad_impl(i):
        return dict(corr_ok=False, prop_ok=False, nontrivial=True, bucket="crash", why="implementation " + i)
    corr_ok = (i == M.get("M")) and I.get("W") == M.get("W") and I.get("R") == M.get("R")
    prop_ok, why = True, ""
    o = I.get("O", "ok")
    if o != "ok":
        prop_ok, why = False, "oracle: " + o
    elif "SR" in M:
        n = len(body.split(" ")[3].split(","))
        if i != "." * (n - 1) + "D":
            prop_ok, why = False, "well-formed sequence not accepted with done on the last token: " + i
        elif _toks(I.get("R"))[0::2] != _toks(M.get("SR"))[0::2]:
            # (the rest after the item is only the trailing Line whitespace; validity of the whole output is the oracle's job)
            prop_ok, why = False, "decoding the output does not give back the tokens (up to number typing): %s vs %s" % (I.get("R"), M.get("SR"))
        elif _strip_ws_hex((I.get("W") or "").replace("|", "")) != (M.get("SC") or "").replace("-", ""):
            prop_ok, why = False, "pretty output differs from the compact output in more than whitespace"
    if not corr_ok and not why:
        why = "implementation and model differ"
    return dict(corr_ok=corr_ok, prop_ok=prop_ok, nontrivial=("SR" in M), bucket=("wf" if "SR" in M else "other"), why=why)

def _strip_ws_hex(hx):
    b = bytes.fromhex(hx.replace("-", ""))
    out = bytearray()
    ins = esc = False
    for c in b:
        if ins:
            out.append(c)
            if esc:
                esc = False
            elif c == 0x5c:
                esc = True
            elif c == 0x22:
                ins = False
            continue
        if c == 0x22:
            ins = True
            out.append(c)
        elif c in (0x20, 0x09, 0x0d, 0x0a):
            continue
        else:
            out.append(c)
    return out.hex()

RULES = {"default": rule_default, "jsondec": rule_jsondec, "jsonenc": rule_jsonenc, "cborenc": rule_cborenc, "cbordec": rule_cbordec}

PROPS = {}

PROPS["C14"] = dict(
    level="proof",
    lean_module="RefmtProofs.Props.C14",
    theorems=["Refmt.C14.cbor_accepts_exactly", "Refmt.C14.json_accepts_exactly", "Refmt.C14.pretty_accepts_exactly",
              "Refmt.C14.enc_no_panic", "Refmt.C14.rec_reject_dead", "Refmt.C14.rec_alive", "Refmt.C14.stackOk_step"],
    streams=[dict(name="acc", gen="acc")],
    title="encoders accept exactly the well-formed token sequences",
    claim="For all token lists (any length, any nesting) each encoder model's per-step answers (continue/done/error/panic) equal the "
          "pushdown recogniser's; the recogniser rejects exactly at the first token with no well-formed continuation; so no encoder "
          "panics. Tie: exhaustive prefix-pruned token trees + random deep sequences through the real Step functions.",
    rule_text="token sequences: prefix-pruned exhaustive tree over the token alphabet for each of the three encoders, plus random deep "
              "mostly-well-formed sequences with injected faults; non-trivial = at least two steps taken; distinct by case text",
)

PROPS["C02"] = dict(
    level="proof",
    lean_module="RefmtProofs.Props.C02",
    theorems=["Refmt.C02.emitHead_eq_head", "Refmt.C02.head_valid", "Refmt.C02.head_shortest", "Refmt.C02.enc_eq_spec",
              "Refmt.C02.roundtrip_norm", "Refmt.C02.roundtrip_partial", "Refmt.Facts.cbor_constants", "Refmt.Facts.head_thresholds"],
    extra_modules=["RefmtProofs.Facts"],
    streams=[dict(name="cborenc", gen="cborenc", rule="cborenc")],
    title="CBOR encoding is lossless and shortest-form",
    claim="Theorems (all token trees, any size/nesting): the encoder model accepts flatten v with done exactly on the last token and "
          "writes exactly the RFC 7049 encoding Spec.Cbor.enc v; emitted heads equal the spec head for every argument < 2^64 and no "
          "legal head is shorter; decoding enc v ++ rest with the decoder model returns the tokens (non-negative ints unsigned, "
          "indefinite lengths as -1), done on the last token, leaving exactly rest. Tie: token streams through the real encoder "
          "and decoder, write-call granularity included.",
    rule_text="token sequences for the CBOR encoder: every head-size boundary in every position, all values below 2^16 (quick) / 2^22 "
              "(thorough), string lengths across head boundaries, sampled float bit patterns, tags across head sizes, deep nesting, "
              "random well-formed trees; non-trivial = well-formed input (spec encoding available); distinct by case text",
)
PROPS["C04"] = dict(
    level="proof",
    lean_module="RefmtProofs.Props.C04",
    theorems=["Refmt.C04.refine", "Refmt.C04.half_exact", "Refmt.C04.negint_exact", "Refmt.C04.parse_consumes", "Refmt.C04.prefix_free",
              "Refmt.Facts.cbor_constants", "Refmt.Facts.caps_checked_before_allocation"],
    extra_modules=["RefmtProofs.Facts"],
    streams=[dict(name="cbordec", gen="cbordec", rule="cbordec")],
    title="CBOR decoder accepts exactly well-formed CBOR",
    claim="Theorems (every byte string, both option settings): the decoder machine model yields exactly the tokens of the item the "
          "RFC 7049 reference decoder (Spec.Cbor.parse) reads, done on the last token, leaving exactly its rest, and errors whenever the "
          "reference rejects; every proper prefix of an accepted item is rejected; half-float widening is exact on all 65536 patterns "
          "(kernel-evaluated table); decoded negative integers are exactly -1-n. Tie: exhaustive-small, grammar-generated, truncated "
          "and mutated byte strings through the real decoder vs machine model vs reference decoder.",
    rule_text="byte strings for the CBOR decoder: all strings of <= 2 bytes, all 3-symbol (thorough: 4-symbol, and all 3-byte) strings over the "
              "structurally significant alphabet, all 65536 half floats, sampled singles, every head boundary in every width, "
              "grammar-generated items in random legal spellings with trailing bytes, every proper prefix, single-edit mutants, adversarial "
              "length headers, deep nesting; non-trivial = multi-token item or a rejected input longer than one byte",
)

PROPS["C03"] = dict(
    level="proof",
    lean_module="RefmtProofs.Props.C03",
    theorems=["Refmt.C03.escape_unquote", "Refmt.C03.escape_is_body", "Refmt.C03.enc_accepts", "Refmt.C03.pretty_is_compact",
              "Refmt.C03.enc_valid_partial", "Refmt.C03.roundtrip_partial", "Refmt.C03.enc_valid_iff_floatTextOk",
              "Refmt.C03.roundtrip_of_floatTextOk", "Refmt.Facts.json_float_cutoffs"],
    extra_modules=["RefmtProofs.Facts"],
    level_note="Trusted: Lean kernel + audited axioms; the hand-written model tied by the correspondence harness; Go stdlib as modelled. "
               "enc_valid and roundtrip carry one explicit hypothesis, FloatsOk (every float token's text, as produced by the model's exact "
               "big-number re-implementation of strconv.AppendFloat, is a complete RFC 8259 number that the decoder types): "
               "enc_valid_iff_floatTextOk proves the unconditional statement EQUIVALENT to that hypothesis, so it is exactly the trusted "
               "strconv part, validated against the real strconv on every run by the jsonenc stream.",
    streams=[dict(name="jsonenc", gen="jsonenc", rule="jsonenc")],
    title="JSON encoding is lossless and always valid JSON",
    claim="Theorems (all token trees in JSON's data model, all whitespace Line/Indent options): the encoder model accepts with done on "
          "the last token; pretty output with insignificant whitespace stripped is exactly the compact output; the string escaper followed "
          "by the decoder's unquoting is the identity on valid UTF-8 and maps each invalid byte to U+FFFD, its output is a legal RFC 8259 "
          "string body and valid UTF-8; the output is read by the independent reference reader as the same value up to number typing and "
          "decodes back through the decoder model (these two under the float-text hypothesis, proved equivalent to the unconditional "
          "statement). Tie: token streams through the real encoder, checked by encoding/json, the reference reader and the real decoder.",
    rule_text="token sequences for the JSON encoder: every code point below U+3000 and a stride above (all in thorough), all two-byte "
              "strings, raw bytes, surrogate forms; int/uint boundaries; floats at the formatting switch points, integral floats, "
              "subnormals, max, random; all nesting shapes up to 5 (6) tokens under 4 option settings; random trees with random "
              "Line/Indent; non-trivial = well-formed input; output checked by encoding/json and by the Lean reference",
)
PROPS["C05"] = dict(
    level="proof",
    lean_module="RefmtProofs.Props.C05",
    theorems=["Refmt.C05.refine", "Refmt.C05.number_dfa", "Refmt.C05.string_dfa", "Refmt.C05.unquote_total",
              "Refmt.C05.reject_literal", "Refmt.C05.reject_nonstring_key", "Refmt.C05.reject_unterminated_array"],
    streams=[dict(name="jsondec", gen="jsondec", rule="jsondec")],
    title="JSON decoder agrees with RFC 8259",
    claim="Theorems (every byte string): the decoder machine model yields exactly the tokens of the value the RFC 8259 reference reader "
          "(Spec.Json.parse, with the single ,] / ,} leniency) reads, done on the last token, leaving exactly its rest (number look-ahead in "
          "push-back), and errors whenever the reference rejects; the number and string scanner DFAs accept exactly the RFC grammars "
          "(written as independent structural recognisers); unquoting never fails on an accepted body; listed rejections as corollaries. "
          "Tie: exhaustive-small, grammar-generated, truncated and mutated texts through the real decoder vs machine model vs reference "
          "reader vs Go's encoding/json.",
    rule_text="texts for the JSON decoder: all strings of <= 3 (4) chars over the 45-symbol JSON alphabet and <= 4 (5) over a 23-symbol one, "
              "literal corruptions, numbers at every range boundary with every follower, all \\uXXXX (stride in quick), surrogate pairs, "
              "raw bytes, grammar-generated documents with random whitespace and trailing commas, trailing data, every proper prefix, "
              "single-edit mutants, deep nesting; checked against encoding/json and the Lean reference reader",
)

PROPS["C15"] = dict(
    level="proof",
    lean_module="RefmtProofs.Props.C15",
    theorems=["Refmt.C15.readn1_refines", "Refmt.C15.readN_refines", "Refmt.C15.unread_refines", "Refmt.C15.client_independent",
              "Refmt.C15.schedule_independent"],
    streams=[dict(name="rdops", gen="rdops"), dict(name="sched", gen="sched")],
    title="decoding does not depend on how the reader delivers bytes",
    claim="Theorems: for every data, chunking, legal number of empty reads and EOF-with-data, each reader operation of the "
          "readerToScanner/ReadAtLeast model returns what the abstract cursor returns and leaves a state abstracting to the cursor's; "
          "hence every client program over these operations (unread only after a successful byte read - the decoders' discipline) computes "
          "the same result under any two schedules. The decoder models read only through the cursor interface (by construction, not "
          "mechanically: stated in DESIGN). Tie: raw operation sequences and whole-document decodes under exhaustive splits.",
    rule_text="rdops: random and exhaustive-small sequences of raw reader operations (Readn1/Unreadn1/Readn/Readnzc) on "
              "shared.NewReader over scheduling io.Readers (all splits of 3 bytes with empty reads at every position, random schedules, "
              "EOF-with-data), compared with the scheduled-reader model (M) and the abstract cursor (S). sched: documents of both formats "
              "under every split (<= 10 / 14 bytes), one-byte reads with up to 3 empty reads at every position, random schedules, "
              "compared with one-shot decoding (O) and the cursor-based decoder model (M); non-trivial = more than one read/step",
)

def rule_fault(body, I, M):
    i = I.get("I", "")
    if _bad_impl(i):
        return dict(corr_ok=False, prop_ok=False, nontrivial=True, bucket="crash", why="implementation " + i)
    corr_ok = (i == M.get("M")) and I.get("c") == M.get("c")
    o = I.get("O", "ok")
    prop_ok = (o == "ok")
    return dict(corr_ok=corr_ok, prop_ok=prop_ok, nontrivial=i.endswith("E") or i.endswith("/inj"), bucket=i[-3:],
                why=("oracle: " + o) if not prop_ok else ("" if corr_ok else "implementation and model differ"))
RULES["fault"] = rule_fault

PROPS["C16"] = dict(
    level="proof",
    lean_module="RefmtProofs.Props.C16",
    theorems=["Refmt.C16.no_fault_same", "Refmt.C16.cbor_write_fault", "Refmt.C16.json_write_fault", "Refmt.C16.cbor_read_fault",
              "Refmt.C16.json_read_fault"],
    streams=[dict(name="wfault", gen="wfault", rule="fault"), dict(name="rfault", gen="rfault", rule="fault")],
    title="I/O failures are reported, never swallowed",
    claim="Theorems: for every document (well-formed tree of the format's domain; every JSON option) and every fault (error, short count, "
          "both; fail-once or fail-stop) at any Write call the document needs, the encoder-model run ends in an error; for every byte "
          "string the fault-free decoder model accepts and every injected reader error at an offset strictly inside the item, decoding "
          "returns that error (both decoders, fail-once and fail-stop). Tie: fault enumeration against the real encoders (step by step "
          "and through the real TokenPump, Write-call counts compared) and decoders.",
    rule_text="wfault: documents x both encoders (JSON compact and pretty) x every Write-call index up to the number the document needs "
              "x {error, short count, both} x {fail-once, fail-stop}, run step by step and through the real TokenPump; rfault: documents "
              "of both formats x a distinguished reader error at every byte offset x {fail-once, fail-stop}; non-trivial = the fault fires",
)

def rule_obj(body, I, M):
    i = I.get("I", "")
    if i == "def" or body.startswith("T ") or body.startswith("A ") or body.startswith("Y "):
        return dict(corr_ok=True, prop_ok=True, nontrivial=False, bucket="def", why="")
    if _bad_impl(i):
        return dict(corr_ok=False, prop_ok=False, nontrivial=True, bucket="crash", why="implementation " + i)
    corr_ok = (i == M.get("M")) and I.get("V") == M.get("V")
    o = I.get("O", "ok")
    prop_ok = (o == "ok")
    why = ("oracle: " + o) if not prop_ok else ("" if corr_ok else "implementation and model differ")
    s = M.get("S")
    if prop_ok and s is not None and s != i:
        prop_ok, why = False, "implementation %s differs from specification %s" % (i, s)
    return dict(corr_ok=corr_ok, prop_ok=prop_ok, nontrivial=("," in i) or len(i.split("/")[0]) >= 2, bucket=i.rsplit("/", 1)[-1][-4:], why=why)
RULES["obj"] = rule_obj

PROPS["C07"] = dict(
    level="proof",
    lean_module="RefmtProofs.Props.C07",
    theorems=["Refmt.C07.marshal_wf", "Refmt.C07.marshal_wf_strong", "Refmt.C07.struct_count_matches_walk_strong",
              "Refmt.C07.marshal_bound", "Refmt.C07.marshal_bound_two", "Refmt.C07.marshal_bound_plain_fixed",
              "Refmt.C07.marshal_fuel_mono", "Refmt.C07.marshal_fuel_mono_le"],
    streams=[dict(name="marshal", gen="marshal", rule="obj")],
    title="the marshaller emits one finite, well-formed token stream",
    claim="Theorems (every type table, atlas, transform library, value): whenever the marshaller model succeeds its tokens are the "
          "flattening of one token tree whose declared lengths all equal the number of entries that follow, whose map keys are untagged "
          "string tokens and whose leaves are scalar tokens (so opens/closes balance, tags sit only on first tokens); the struct header "
          "count equals the pairs walked for every combination of ignored / unreachable / omitted fields; token count <= 5*nodes (<= 2*nodes "
          "without unions) under stated atlas conditions; the result is independent of fuel once it is not a fuel exhaustion (the model "
          "terminates: no endless stream). Tie: zoo values through the real Marshaller under recover with a step cap.",
    rule_text="values of ~95 zoo types (compiled named types and reflect-composed ones: scalars of every kind, byte slices/arrays, slices, "
              "arrays, maps incl. struct keys, pointers, untyped slots, structs with omitempty/ignored/embedded/embedded-pointer fields, "
              "unions, transforms, unsupported kinds) x 5 atlas configurations, type-directed random values with nil at every position; "
              "real obj.Marshaller stepped under recover with a step cap; non-trivial = more than one token",
)

PROPS["C13"] = dict(
    level="proof",
    lean_module="RefmtProofs.Props.C13",
    theorems=['Refmt.C13.stream', 'Refmt.C13.done_is_complete_modTags', 'Refmt.C13.done_is_complete_fixed', 'Refmt.C13.no_early_done', 'Refmt.C13.rest_irrelevant', 'Refmt.C13.reject_unknown_field', 'Refmt.C13.reject_struct_length_mismatch', 'Refmt.C13.reject_duplicate_key', 'Refmt.C13.reject_array_overflow', 'Refmt.C13.reject_wrong_kind_scalar', 'Refmt.C13.total_fixed', 'Refmt.C13.complete_plain_rt', 'Refmt.C13.complete_plain_sorted', 'Refmt.C13.complete_plain_perm'],
    streams=[dict(name="unmarshal", gen="unmarshal", rule="obj")],
    title="the unmarshaller accepts exactly the token streams that fit the target",
    claim="Theorems (every type table, atlas, transform library, target, token list): the unmarshaller model signals completion only when the tokens consumed form exactly one well-formed item (the flattening of a token tree, modulo tags on close tokens, which it ignores) and leaves the rest untouched; no proper prefix of an accepted item is accepted (done exactly on the last token); what follows the item is irrelevant; unknown struct fields, duplicate map keys, struct lengths that disagree, overflow of fixed arrays and wrong-kind scalars are errors at the offending token; under a consistent atlas whose transform/tag delegation chains are bounded no token list makes the model panic; every rendering the marshaller produces for a value of a plain type is accepted, completes on its last token and reconstructs the specified value (exactly with entries in marshalling order; = normV for sorted maps; = normV up to map entry order in general). Statements found false while proving (tags on close tokens; fuel constant and self-delegating transforms; order of map entries in the model's value representation) are kept as *_statement with their counterexamples. Tie: prefix-pruned exhaustive token sequences x every zoo target x 4 atlases through the real Unmarshaller.",
    rule_text="token sequences x target types: prefix-pruned exhaustive sequences (<= 3, thorough 4) over a 39-symbol token alphabet with "
              "matching / non-matching keys and tags, for every zoo target under 4 atlases; integers of every magnitude into every numeric "
              "kind (C09); real obj.Unmarshaller stepped token by token under recover; flags and the resulting Go value compared",
)

def rule_roundtrip(body, I, M):
    i = I.get("I", "")
    if body.startswith("unmbytes "):
        if _bad_impl(i):
            return dict(corr_ok=False, prop_ok=False, nontrivial=True, bucket="crash", why="implementation " + i)
        ok = (I.get("O", "ok") == "ok")
        return dict(corr_ok=(i == M.get("M")), prop_ok=ok, nontrivial=True, bucket="foreign-" + i.rsplit("/", 1)[-1],
                    why=("" if ok else "oracle: " + I.get("O", "")) or ("" if i == M.get("M") else "implementation and model differ"))
    if i == "def" or body[:2] in ("T ", "A ", "Y "):
        return dict(corr_ok=True, prop_ok=True, nontrivial=False, bucket="def", why="")
    if _bad_impl(i):
        return dict(corr_ok=False, prop_ok=False, nontrivial=True, bucket="crash", why="implementation " + i)
    corr_ok = (i == M.get("M"))
    o = I.get("O", "ok")
    prop_ok, why = (o == "ok"), ("oracle: " + o if o != "ok" else "")
    parts = i.split("/")
    if prop_ok and parts[-1] == "ok":
        if parts[1] != M.get("S"):
            prop_ok, why = False, "round trip returned %s, specified value (norm) is %s" % (parts[1], M.get("S"))
    elif prop_ok and parts[-1] == "err" and (M.get("M") or "").endswith("/ok"):
        prop_ok, why = False, "round trip failed where the model succeeds: " + i
    if not corr_ok and not why:
        why = "implementation and model differ"
    return dict(corr_ok=corr_ok, prop_ok=prop_ok, nontrivial=(parts[-1] == "ok" and len(parts[0]) > 4), bucket=parts[-1], why=why)
RULES["roundtrip"] = rule_roundtrip

PROPS["C01"] = dict(
    level="proof",
    lean_module="RefmtProofs.Props.C01",
    theorems=["Refmt.C01.transport_cbor", "Refmt.C01.unm_canon_fixed", "Refmt.C01.cbor_eq_tokens", "Refmt.C01.transport_json",
              "Refmt.C01.unm_retype_typed_partial", "Refmt.C01.json_eq_tokens_typed_partial", "Refmt.C01.viaTokens_plain",
              "Refmt.C01.roundtrip_plain_cbor", "Refmt.C01.roundtrip_plain_json", "Refmt.C13.complete_plain_perm"],
    extra_modules=["RefmtProofs.Props.C13"],
    streams=[dict(name="roundtrip", gen="roundtrip", rule="roundtrip")],
    title="Marshal then Unmarshal returns the original value",
    claim="Theorems. (a) Transport, for EVERY type, atlas, transform library and value: whatever token list the marshaller model "
          "emits (numbers a Go value can hold, strings within the decoder cap) the CBOR encoder model accepts it with done at the end "
          "and the CBOR decoder model returns the same tokens up to the spelling of non-negative integers; no unmarshal machine can see "
          "that difference; hence viaCbor v = viaTokens v: CBOR adds nothing to and removes nothing from the token-level round trip "
          "(marshaller straight into unmarshaller). Same for JSON on what JSON carries (tokens come back re-typed: lengths unknown, "
          "integral floats as integers, invalid UTF-8 replaced) for typed targets, whenever the token-level round trip succeeds. (b) "
          "Completeness: on the plain kinds (scalars of every numeric kind, strings, byte slices/arrays, slices, arrays, string-keyed "
          "maps, pointers to those) the token-level round trip returns the specified value normV, which differs from the input only in "
          "what the property lists (pointer to something serializing as null comes back nil; map entries are compared as a set). (a)+(b) "
          "= roundtrip_plain_cbor / roundtrip_plain_json. For struct maps see C11.clone_equal_struct; unions, transforms and untyped slots "
          "are covered by (a) plus the correspondence stream, where the real round trip is compared with the model composition and with "
          "normV. Statements found false while proving are kept with counterexamples (unm_canon: int 2^63 in an untyped slot; "
          "json_eq_tokens_typed: ill-typed value float 1.0 at type int).",
    rule_text="values of ~95 zoo types x 5 atlas configurations x {CBOR, JSON with random Line/Indent}: type-directed random values "
              "(boundary numbers, nil/empty containers, nested pointers, untyped slots holding what the equality can see through, unions, "
              "transforms, tagged types) through the real MarshalAtlased/UnmarshalAtlased; compared with the model composition "
              "(marshal, encode, decode, unmarshal) and with the specified value norm(v); non-trivial = successful round trip of > 2 bytes",
)

PROPS["C09"] = dict(
    level="proof",
    lean_module="RefmtProofs.Props.C09",
    theorems=["Refmt.C09.store_exact", "Refmt.C09.store_rejects_unfit", "Refmt.C09.store_accepts_fit", "Refmt.C09.float_not_into_int",
              "Refmt.C09.float_into_float", "Refmt.C09.untyped_exact"],
    streams=[dict(name="store", gen="store", rule="obj")],
    title="unmarshalling never silently changes a number",
    claim="Theorems (every integer token, every integer kind, unbounded values): the primitive-store model either fails or stores exactly "
          "the token's mathematical value, which then lies in the kind's range; out-of-range values are rejected, in-range ones accepted in "
          "either token spelling; floats never go into integer targets; float64 targets take floats bit-exactly; untyped slots receive the "
          "exact integer. Tie: every integer in [-70000,70000] (stride 7 in quick) into the narrow kinds, all +-2^k, 2^k+-1 into every "
          "numeric kind and untyped slots, both spellings, through the real Unmarshaller; stored Go value compared with the model and "
          "checked exact by an independent oracle.",
    rule_text="single numeric tokens x numeric target kinds: exhaustive small range for int8/uint8/int16/uint16 targets, all powers of two "
              "+-1 up to 2^64-1 for every numeric kind, named kinds, pointers and untyped slots; non-trivial = the store succeeded or was "
              "rejected for range (all cases are distinct (target, token) pairs)",
)
PROPS["C08"] = dict(
    level="proof",
    lean_module="RefmtProofs.Props.C08",
    theorems=["Refmt.C08.keyLe_total", "Refmt.C08.keyLe_trans", "Refmt.C08.keyLe_antisymm", "Refmt.C08.keyLe_rfc7049_shorter_first",
              "Refmt.C08.keyLe_default_is_strings", "Refmt.C08.sortKeys_sorted", "Refmt.C08.sortKeys_perm", "Refmt.C08.sortKeys_unique",
              "Refmt.C08.marshal_map_order_independent", "Refmt.C08.struct_tokens_shape", "Refmt.C08.struct_keys_in_atlas_order_typed"],
    streams=[dict(name="order", gen="order", rule="obj")],
    title="deterministic output, keys ordered as configured",
    claim="Theorems: both key comparators are total, transitive and antisymmetric on byte strings (RFC 7049: shorter first); the emitted "
          "key sequence is sorted by the configured order and is a permutation of the keys; with distinct keys it is the unique sorted "
          "permutation, so it cannot depend on iteration/insertion order or on which correct sort runs; two map values with the same "
          "entries in different orders marshal to identical tokens; a struct's tokens are its entry's fields in atlas order. Tie: maps "
          "built in every insertion order (<= 5 keys) and marshalled repeatedly under Go's randomised iteration, all three modes.",
    rule_text="maps with key sets containing prefixes, equal lengths, multi-byte UTF-8 and struct keys via a transform, built in every "
              "insertion order for <= 5 keys (random orders beyond), marshalled 3 times each under Go's randomised map iteration, under the "
              "three key-sort modes (atlas default and per-type morphism) and for autogenerated structs; non-trivial = at least 2 keys",
)

def rule_obj_all(body, I, M):
    r = rule_obj(body, I, M)
    if r.get("bucket") != "def":
        r["nontrivial"] = True
    return r
RULES["obj_all"] = rule_obj_all
PROPS["C09"]["streams"] = [dict(name="store", gen="store", rule="obj_all")]

def rule_sortmodes(body, I, M):
    """C08: the ORDER of the autogenerated fields follows the requested mode, whatever modes were requested before
    (only the relative order of the names both sides map is compared: which names are mapped is C19's business)."""
    i = I.get("I", "")
    if _isdef(body, i):
        return dict(corr_ok=True, prop_ok=True, nontrivial=False, bucket="def", why="")
    if _bad_impl(i):
        return dict(corr_ok=False, prop_ok=False, nontrivial=True, bucket="crash", why="implementation " + i)
    names = lambda x: [f.split(":")[0] for f in (x or "-").split(";") if f != "-"]
    ni, nm = names(i), names(M.get("M"))
    common = set(ni) & set(nm)
    oi, om = [n for n in ni if n in common], [n for n in nm if n in common]
    ok = (oi == om)
    mode = body.split(" ")[-1]
    if ok and mode in ("strings", "rfc7049"):
        key = (lambda h: bytes.fromhex(h)) if mode == "strings" else (lambda h: (len(h) // 2, bytes.fromhex(h)))
        ok = (ni == sorted(ni, key=key))
    return dict(corr_ok=ok, prop_ok=ok, nontrivial=len(ni) >= 2, bucket=mode,
                why="" if ok else "autogenerated fields come in order %s, mode %s prescribes %s" % (",".join(ni)[:100], mode, ",".join(om)[:100]))
RULES["sortmodes"] = rule_sortmodes
PROPS["C09"]["streams"].append(dict(name="numbytes", gen="numbytes", rule="roundtrip"))
PROPS["C09"]["rule_text"] += ("; numbytes: the same boundary integers on the wire - CBOR heads of major types 0 and 1 in shortest and 8-byte "
    "form, JSON texts with sign, fraction and exponent - through the real Unmarshal into every numeric kind, pointers, slices and untyped "
    "slots; stored value compared with the decoder+unmarshaller model and with an exact rational-arithmetic oracle")
PROPS["C08"]["streams"].append(dict(name="sortmodes", gen="sortmodes", rule="sortmodes"))
PROPS["C08"]["rule_text"] += ("; sortmodes: zoo and generated struct types autogenerated under the three field-sort modes in every sequence of "
    "modes (history independence), order of the mapped names compared with the Lean model's and with the mode's comparator")

def _isdef(body, i):
    return i == "def" or body[:2] in ("T ", "A ", "Y ")

def rule_remarshal(body, I, M):
    i = I.get("I", "")
    if _isdef(body, i):
        return dict(corr_ok=True, prop_ok=True, nontrivial=False, bucket="def", why="")
    if _bad_impl(i):
        return dict(corr_ok=False, prop_ok=False, nontrivial=True, bucket="crash", why="implementation " + i)
    corr_ok = (i == M.get("M"))
    o = I.get("O", "ok")
    prop_ok, why = (o == "ok"), ("oracle: " + o if o != "ok" else "")
    parts = i.split("/")
    if prop_ok and parts[-1] == "ok" and M.get("S") is not None and parts[3] != M.get("S"):
        prop_ok, why = False, "re-marshalled document decodes to %s, specified value is %s" % (parts[3], M.get("S"))
    if not corr_ok and not why:
        why = "implementation and model differ"
    return dict(corr_ok=corr_ok, prop_ok=prop_ok, nontrivial=(parts[-1] == "ok" and len(parts[0]) > 4), bucket=parts[-1], why=why)
RULES["remarshal"] = rule_remarshal

def rule_clone(body, I, M):
    i = I.get("I", "")
    if _isdef(body, i):
        return dict(corr_ok=True, prop_ok=True, nontrivial=False, bucket="def", why="")
    if _bad_impl(i):
        return dict(corr_ok=False, prop_ok=False, nontrivial=True, bucket="crash", why="implementation " + i)
    corr_ok = (i == M.get("M"))
    o = I.get("O", "ok")
    prop_ok, why = (o == "ok"), ("oracle: " + o if o != "ok" else "")
    parts = i.rsplit("/", 1)
    if prop_ok and parts[-1] == "ok" and M.get("S") is not None and parts[0] != M.get("S"):
        prop_ok, why = False, "clone is %s, specified value is %s" % (parts[0], M.get("S"))
    if not corr_ok and not why:
        why = "implementation and model differ"
    return dict(corr_ok=corr_ok, prop_ok=prop_ok, nontrivial=(parts[-1] == "ok" and len(parts[0]) > 4), bucket=parts[-1], why=why)
RULES["clone"] = rule_clone

def rule_pump(body, I, M):
    i = I.get("I", "")
    if _isdef(body, i):
        return dict(corr_ok=True, prop_ok=True, nontrivial=False, bucket="def", why="")
    if _bad_impl(i):
        return dict(corr_ok=False, prop_ok=False, nontrivial=True, bucket="crash", why="implementation " + i)
    corr_ok = (i == M.get("M")) and (I.get("W") in (None, "-") or I.get("W") == M.get("W"))
    o = I.get("O", "ok")
    prop_ok, why = (o == "ok"), ("oracle: " + o if o != "ok" else "")
    parts = i.split("/")
    if prop_ok and I.get("CH") is not None:
        prop_ok, why = False, "the .hex flavour of the command-line converter differs from the binary one"
    if prop_ok and parts[-1] == "ok":
        c = I.get("C")
        if prop_ok and c is not None and c != parts[0]:
            prop_ok, why = False, "command-line converter output %s differs from the library pump %s" % (c[:60], parts[0][:60])
    elif prop_ok and I.get("C") not in (None, "err"):
        prop_ok, why = False, "command-line converter succeeded where the library pump fails"
    if not corr_ok and not why:
        why = "implementation and model differ"
    return dict(corr_ok=corr_ok, prop_ok=prop_ok, nontrivial=(parts[-1] == "ok" and len(parts[0]) > 4), bucket=parts[-1], why=why)
RULES["pump"] = rule_pump

for _pid, _name, _rule, _title in (("C12", "remarshal", "remarshal", "re-marshalling a decoded document reaches a byte-exact fixpoint"),
                                  ("C11", "clone", "clone", "Clone is an equal, fully independent deep copy"),
                                  ("C10", "pump", "pump", "streaming transcoding preserves the document")):
    PROPS[_pid] = dict(
        disabled=True, na_reason="model and correspondence tie built; theorems are being proved",
        level="proof", lean_module="RefmtProofs.Props." + _pid, theorems=[],
        streams=[dict(name=_name, gen=_name, rule=_rule)], title=_title, claim="(work in progress)",
        rule_text="(see DESIGN.md)")
PROPS["C10"].update(disabled=False, theorems=["Refmt.C10.pump_eq_batch_cbor_src", "Refmt.C10.pump_eq_batch_json_src", "Refmt.C10.j2c_pump",
        "Refmt.C10.j2c_readback", "Refmt.C10.j2c_bounded", "Refmt.C10.c2j_accepts", "Refmt.C10.pump_src_error_cbor",
        "Refmt.C10.pump_src_error_json"],
    claim="Theorems: the lock-step pump model (decoder step, encoder step, repeat) over any sink produces exactly what decoding the "
          "whole item first and then feeding its tokens to the sink produces (both decoders), and stops with the source's error when the "
          "source rejects; JSON to CBOR: every JSON text the reference reader accepts is pumped to done, the bytes written are the RFC 7049 "
          "encoding of the decoded tree, and (strings within the decoder's 32 MiB cap) the CBOR reference decoder reads that tree back; "
          "CBOR to JSON: every item in the common data model is accepted by the JSON encoder. The statement without the cap is kept as "
          "j2c_statement with its refutation. Tie: documents of both formats through the real TokenPump in all four pairings, through "
          "the slow path (unmarshal to interface{} then marshal) and through the command-line converter as a subprocess.",
    rule_text="documents (grammar-generated, mutated, truncated, with trailing data) x {cbor,json} source x {cbor,json,pretty json} sink "
              "through shared.TokenPump, compared with the lock-step pump model, with decode-all-then-encode, with the slow path through "
              "interface{} (common data model only, duplicate keys excluded) and with the refmt command-line converter run as a "
              "subprocess (binary and .hex flavours); non-trivial = pump succeeded with more than 2 bytes")
PROPS["C10"].pop("na_reason", None)
PROPS["C11"].update(disabled=False, theorems=["Refmt.C11.clone_equal_plain", "Refmt.C11.norm_plain_id", "Refmt.C11.clone_equal_plain_noptr",
        "Refmt.C11.norm_plain_ptr", "Refmt.C11.clone_equal_struct_rt", "Refmt.C11.clone_equal_struct_fixed", "Refmt.C11.clone_equal_struct_sorted",
        "Refmt.C11.zeroStable_of_check"],
    claim="Equality half, theorems: Clone in the model is the marshaller pumped straight into the unmarshaller; for every plain type and "
          "for struct types with struct-map entries (one-step routes, distinct names, omitempty allowed; nested in slices, arrays, maps, "
          "pointers) and every value of the type with distinct map keys, Clone succeeds and returns the specified value normV up to the "
          "order in which the model lists map entries; on pointer-free plain types normV is the identity (Clone returns an equal value, "
          "full stop); with pointers the only difference is that a pointer to something that serializes as null comes back nil. The "
          "statement with order-sensitive equality inside struct fields is kept with its counterexample. Independence half: model values "
          "are immutable, so sharing cannot be expressed or proved in the model; it is decided by the correspondence stream, whose oracle "
          "mutates every reachable byte, element, entry and pointee of the destination and of the source in the real Go values and looks "
          "for the change on the other side, for every generated value of every zoo type under every atlas (this is how the byte-slice "
          "aliasing defect 11781f4 was found). Unions, transforms and untyped slots: equality by tie against normV.",
    rule_text="values of the zoo types (every kind of mutable storage: byte slices and arrays at top level, in struct fields, map values, "
              "slice elements, behind pointers, inside untyped slots; transforms, unions) x 5 atlases through the real CloneAtlased; result "
              "compared with the model (marshalV then unmV) and with normV; oracle: source unchanged after the call; mutation probing of "
              "every reachable location of copy and source for aliasing; non-trivial = successful clone of a value with more than 2 tokens")
PROPS["C11"].pop("na_reason", None)
PROPS["C12"].update(disabled=False, extra_modules=["RefmtProofs.Props.C01"],
    theorems=["Refmt.C12.unm_yields_untyped", "Refmt.C12.untyped_roundtrip", "Refmt.C12.marshal_sortU", "Refmt.C12.fixpoint_tokens",
              "Refmt.C12.unm_canon_untyped", "Refmt.C12.fixpoint_cbor", "Refmt.C12.native_first_pass_cbor", "Refmt.C12.fixpoint_json",
              "Refmt.C01.cbor_eq_tokens"],
    claim="Theorems (every token list / every native untyped value, unbounded nesting): whatever the untyped unmarshaller accepts, it "
          "builds a native untyped value (nil, bool, int, uint64 only above MaxInt64, float64, string, byte string, []interface{}, "
          "map[string]interface{} with distinct keys); marshalling such a value and unmarshalling the tokens into an untyped slot gives "
          "the value back with every map in the marshaller's key order, and sorting does not change what is marshalled: M(U(M u)) = M u on "
          "tokens; the untyped unmarshaller cannot tell a token list from what the CBOR codec returns for it; hence for CBOR, byte level: "
          "b2 = Marshal(u1) decodes into an untyped u2 with Marshal(u2) = b2 (fixpoint), and for native untyped values already the first "
          "re-marshal is byte-identical; the same for JSON on what JSON carries (no byte strings, valid UTF-8, finite floats other than -0 "
          "whose text re-reads to a token that prints as the same text - a decidable per-float condition on the trusted float-text "
          "routines). The statements with the originally written fuel side condition are kept with a kernel-checked counterexample "
          "(33-fold nesting). That the re-marshalled document still decodes into v's own type to a value equal to v is C01 + the "
          "remarshal stream.",
    rule_text="values of the zoo types (as C01, incl. uint64 up to 2^64-1, integral floats, NaN for CBOR, nested empty containers, tagged "
              "transforms at every depth) x atlases x both formats: b1 = Marshal(v), u1 = Unmarshal(b1) into interface{}, b2 = Marshal(u1), "
              "back = Unmarshal(b2) into v's type, u2, b3; oracle: b3 = b2 byte for byte, back equals the specified value, and b2 = b1 for "
              "values made only of natively untyped kinds (except JSON -0); everything compared with the model chain")
PROPS["C12"].pop("na_reason", None)

def rule_autogen(body, I, M):
    i = I.get("I", "")
    if _isdef(body, i):
        return dict(corr_ok=True, prop_ok=True, nontrivial=False, bucket="def", why="")
    if body.startswith("roundtrip "):
        return rule_roundtrip(body, I, M)
    if _bad_impl(i):
        return dict(corr_ok=False, prop_ok=False, nontrivial=True, bucket="crash", why="implementation " + i)
    corr_ok = (i == M.get("M"))
    o = I.get("O", "ok")
    prop_ok, why = (o == "ok"), ("oracle: " + o[:200] if o != "ok" else "")
    srt = lambda x: ";".join(sorted((x or "-").split(";")))
    if prop_ok and M.get("S") is not None and srt(i) != srt(M.get("S")):
        prop_ok, why = False, "mapping %s differs from the promotion rule %s" % (i[:120], M.get("S")[:120])
    if not corr_ok and not why:
        why = "implementation and model differ"
    return dict(corr_ok=corr_ok, prop_ok=prop_ok, nontrivial=(";" in i), bucket=("multi" if ";" in i else "small"), why=why)
RULES["autogen"] = rule_autogen

PROPS["C19"] = dict(
    level="proof", lean_module="RefmtProofs.Props.C19", theorems=["Refmt.C19.route_resolves", "Refmt.C19.names_distinct", "Refmt.C19.unexported_unmapped", "Refmt.C19.dash_unmapped",
              "Refmt.C19.omitempty_recorded", "Refmt.C19.dominant_is_select", "Refmt.C19.sorted_by_mode", "Refmt.C19.explore_eq_promoted",
              "Refmt.C19.explore_eq_promoted_all", "Refmt.C19.explore_eq_promoted_dag", "Refmt.C19.diamond_drops_ambiguous_name"],
    streams=[dict(name="autogen", gen="autogen", rule="autogen")],
    title="autogenerated struct mappings follow Go's embedding and tag rules", claim="Theorems (every type table - trees, diamonds, pointer and embedding cycles -, every sort mode): the breadth-first "
          "field walk of the model maps exactly the fields Go's promotion rule selects (explore_eq_promoted_all: membership in "
          "exploreFields <-> membership in the promotion-rule spec `promoted`, no hypothesis): shallowest depth wins, a tagged field beats "
          "untagged ones at that depth, two or more candidates annihilate the name; every mapped field's route resolves to the field it "
          "names; names are pairwise distinct; unexported, '-'-tagged and unsettable fields are never mapped; omitempty is recorded; the "
          "result is sorted by the requested mode. The diamond S{A;B} A{C} B{C} C{D} D{X} found while proving (multiplicity was counted for "
          "one level only) was repaired in /repo (2ce7cc7); diamond_drops_ambiguous_name pins the repaired behaviour. Tie: 402 generated "
          "struct families compiled into the harness, real exploreFields vs Lean BFS model vs Lean promotion spec vs an independent Go "
          "promotion oracle; then values round-tripped through the autogenerated atlases.",
    rule_text="400 generated families (1674 struct types, compiled Go source: up to 3 levels of embedding by value and by pointer, "
              "exported and unexported embedded types, shared sub-structs (diamonds), embedded non-struct types, colliding names and tags, "
              "'-' and ',omitempty', invalid tag names, non-ASCII field names) plus the zoo structs x 3 sort modes; mapping compared with the "
              "Lean BFS model, with the Lean promotion-rule spec and with an independent Go implementation of the promotion rule; then values "
              "of the root types (embedded pointers nil and non-nil) round-tripped through the autogenerated atlases in both formats",
)

def rule_hist(body, I, M):
    i = I.get("I", "")
    if _isdef(body, i):
        return dict(corr_ok=True, prop_ok=True, nontrivial=False, bucket="def", why="")
    if _bad_impl(i):
        return dict(corr_ok=False, prop_ok=False, nontrivial=True, bucket="crash", why="implementation " + i)
    corr_ok = (i == M.get("M"))
    o = I.get("O", "ok")
    prop_ok, why = (o == "ok"), ("oracle: " + o[:300] if o != "ok" else "")
    if prop_ok and M.get("S") is not None and i != "marshal-failed":
        vals, rest = i.rsplit("/", 1)
        if vals != M.get("S"):
            prop_ok, why = False, "items read back %s, specified %s" % (vals[:150], M.get("S")[:150])
        elif int(rest) > 1:
            prop_ok, why = False, "%s bytes left in the stream after reading every item back" % rest
    if not corr_ok and not why:
        why = "implementation and model differ"
    return dict(corr_ok=corr_ok, prop_ok=prop_ok, nontrivial=(";" in i or "|" in i or body.startswith("race ")), bucket=body.split(" ")[0], why=why)
RULES["hist"] = rule_hist

PROPS["C17"] = dict(
    level="proof", lean_module="RefmtProofs.Props.C17", theorems=['Refmt.C17.reset_is_fresh', 'Refmt.C17.cbor_one_item', 'Refmt.C17.frame_cbor', 'Refmt.C17.frame_json'],
    streams=[dict(name="hist", gen="hist", rule="hist")],
    title="reused instances equal fresh ones; items frame cleanly", claim="Theorems: Reset puts every codec machine model into exactly its initial state (so a reused instance is a fresh one); items written back to back by one encoder are read back one by one by one decoder over one reader, each call consuming exactly its item (CBOR: to the byte; JSON: up to the single look-ahead byte after a number, which stays in the reader's push-back and is whitespace/the next item's separator), for every list of well-formed items. The object-layer models are pure functions of (atlas, type, input), i.e. they have no state to carry over; that the real Marshaller/Unmarshaller/Cloner instances behave like them after any history, including failed calls, is what the hist correspondence stream checks (every call on a long-lived instance vs a fresh instance vs the model).",
    rule_text="histories of 1..40 (thorough 400) calls on long-lived Marshaller / Unmarshaller / Cloner instances (one per atlas, four "
              "atlases mapping the same Go types differently, interleaved), with calls that fail (unrepresentable values, wrong-kind items, "
              "types without mapping); every call also run on a fresh instance (oracle) and on the stateless model; and streams of 2..20 items "
              "marshalled back to back by one Marshaller and read back by one Unmarshaller, in both formats; non-trivial = at least 2 calls/items",
)

PROPS["C20"] = dict(
    level="proof",
    lean_module="RefmtProofs.Props.C20",
    theorems=["Refmt.C20.struct_tag_first", "Refmt.C20.transform_tag_first", "Refmt.C20.tagged_occurrence",
              "Refmt.C20.tagged_through_pointer", "Refmt.C20.tagged_in_untyped", "Refmt.C20.wire_tag",
              "Refmt.C20.untyped_unknown_tag", "Refmt.C20.untyped_known_tag"],
    streams=[dict(name="tags", gen="tags", rule="roundtrip")],
    title="CBOR tags identify registered types and are never dropped",
    claim="Theorems: the struct-map and transform machines put exactly the entry's tag on the first token they emit; hence wherever a "
          "value of a registered tagged type is marshalled (any position: marshalV at that type, through non-nil pointers, inside an "
          "untyped slot) the first token of that occurrence carries the tag; the CBOR encoding of such an item begins with the tag head; "
          "an untyped slot given a tagged token reconstructs the registered type, and an unregistered tag is an error. Tie: tagged zoo "
          "atlases (tags across head sizes incl. 0), tagged items at every position, round trips through untyped slots, foreign CBOR.",
    rule_text="values with tagged items (struct-map and transform entries, tags 0, 23, 24, 100, 1100, 65536, 2^32) at top level, in struct "
              "fields, map values, slice elements, behind pointers and inside untyped slots, round-tripped through CBOR under the tagged "
              "atlases; plus foreign CBOR carrying registered and unregistered tags on every item kind decoded into untyped slots",
)

def rule_untrusted(body, I, M):
    i = I.get("I", "")
    if _isdef(body, i):
        return dict(corr_ok=True, prop_ok=True, nontrivial=False, bucket="def", why="")
    if _bad_impl(i):
        return dict(corr_ok=False, prop_ok=False, nontrivial=True, bucket="crash", why="implementation " + i)
    corr_ok = (i == M.get("M")) and I.get("n") == M.get("n")
    o = I.get("O", "ok")
    prop_ok, why = (o == "ok"), ("oracle: " + o[:200] if o != "ok" else "")
    if not corr_ok and not why:
        why = "implementation and model differ"
    return dict(corr_ok=corr_ok, prop_ok=prop_ok, nontrivial=(int(I.get("n", "0") or 0) >= 2), bucket=i, why=why)
RULES["untrusted"] = rule_untrusted

PROPS["C06"] = dict(
    level="proof",
    extra_modules=["RefmtProofs.Props.C13"], lean_module="RefmtProofs.Props.C06", theorems=['Refmt.C06.cbor_terminates', 'Refmt.C06.json_terminates', 'Refmt.C06.cbor_steps_bound', 'Refmt.C06.json_steps_bound', 'Refmt.C06.cbor_alloc_bound', 'Refmt.C06.cbor_terminates_any_reader', 'Refmt.C06.json_terminates_any_reader', 'Refmt.C06.cbor_alloc_bound_any_reader', 'Refmt.C06.cbor_alloc_bound_consumed', 'Refmt.C06.sinks_never_panic', 'Refmt.C13.total_fixed'],
    streams=[dict(name="untrusted", gen="untrusted", rule="untrusted")],
    title="decoding untrusted bytes never panics, hangs or over-allocates", claim="Theorems (every byte string, every reader incl. faults): the decoder machine models have finished within 2|input|+2 token steps (more fuel changes nothing: tokens, outcome, reader, step and allocation counters), so they return a value or an error, never loop; the bytes the CBOR model allocates at its make sites are <= 2*32MiB + 8|input| + 64 whatever lengths the input declares (the constants are tight: kernel-checked witnesses); every token a decoder can emit is handled by every encoder without panic; the object unmarshaller model has no reachable panic outcome under a consistent atlas (C13.total_fixed). Tie: per call on the real code: recover, token-step count against 2n+2 and against the model's exact count, runtime.MemStats.TotalAlloc with the GC off against the bound, outcome class against the model. Go-runtime panics that the models do not represent as an outcome (index out of range, nil dereference) are observed by the tie only.",
    rule_text="random bytes, structure-biased and mutated/truncated CBOR and JSON documents, adversarial length headers (up to 2^64-1) on every "
              "major type with and without data behind them and inside indefinite strings / nested containers, nesting 20000 deep, x 23 "
              "target types (untyped, maps, slices, fixed arrays, structs, pointers, unions, tagged types, unmappable types) x 5 atlases, and "
              "every decoder-to-encoder pairing; per call: recover, token-step count (cap 2n+2), runtime.MemStats.TotalAlloc with the GC off "
              "(cap 2*32MiB + 1MiB + 16KiB*n); class and step count compared with the model",
)

PROPS["C18"] = dict(
    level="other", lean_module="RefmtProofs.Props.C18",
    theorems=["Refmt.C18.no_shared_writes", "Refmt.C18.noninterference", "Refmt.C18.schedule_irrelevant"],
    explanation="Partial by nature: the Go memory model and scheduler are outside any executable model. Decided by (1) a kernel-checked "
                "non-interference theorem for systems whose steps only read the shared component, (2) a fact regenerated from the SSA of "
                "/repo's working tree on every run - no store to package-level state outside init functions and no store to Atlas structures "
                "outside the builder functions - whose emptiness is a proof obligation (Facts.no_shared_writes), and (3) the race detector "
                "as runtime monitor over concurrent workloads whose results are compared with sequential execution.",
    level_note="Trusted: Lean kernel; the SSA-based footprint extractor (tools/extract: which functions count as builders is a fixed list); "
               "the Go race detector; that the object layer's Go code has the read-only-shared shape the model functions have.",
    technique="Lean 4 non-interference theorem + regenerated SSA write-set obligation + race-detector monitored concurrent workloads",
    streams=[dict(name="race", gen="race", rule="hist", binary="harness-race", timeout=3000)],
    title="concurrent use with a shared Atlas is race- and interference-free",
    claim="Non-interference theorem (every interleaving gives each worker its sequential outputs when steps only read the shared part) + "
          "regenerated fact that refmt never writes shared state after construction + race-detector runs of N goroutines sharing one "
          "atlas set, every result compared with sequential execution. The memory-model part is monitored, not proved.",
    rule_text="N goroutines (2 .. 4 x cores) x mixed marshal / unmarshal / clone jobs over zoo types in both formats, each worker with its "
              "own machinery, all sharing the atlases (every entry kind) and read-only inputs, under several GOMAXPROCS settings, built "
              "with the Go race detector (halt on first report); every worker's result compared with sequential execution",
)


# ---- later strengthenings (merged after the first round of proofs) ----------------------------------------------------

# C03: the float-text hypothesis is now a theorem
PROPS["C03"]["theorems"] += ["Refmt.C03Float.floatTextOk", "Refmt.C03Float.enc_valid", "Refmt.C03Float.roundtrip"]
PROPS["C03"]["extra_modules"] = PROPS["C03"].get("extra_modules", []) + ["RefmtProofs.Props.C03Float"]
PROPS["C03"]["claim"] += (" UNCONDITIONAL since C03Float: FloatTextOk is proved (for every finite float the text written is a complete "
    "RFC 8259 number and numTok types it: the shortest digits lie in the rounding interval, integral texts below 2^63, no overflow of the "
    "correctly rounded parse), so enc_valid_statement and roundtrip_statement hold without hypothesis.")

# C15: the decoder models ARE programs over the reader interface (no longer 'by construction')
PROPS["C15"]["theorems"] += ["Refmt.C15Prog.cbor_is_client", "Refmt.C15Prog.json_is_client", "Refmt.C15Prog.cbor_decode_is_client",
    "Refmt.C15Prog.json_decode_is_client", "Refmt.C15Prog.cbor_decode_sched_eq_cursor", "Refmt.C15Prog.json_decode_sched_eq_cursor",
    "Refmt.C15Prog.cbor_decode_schedule_independent", "Refmt.C15Prog.json_decode_schedule_independent"]
PROPS["C15"]["extra_modules"] = PROPS["C15"].get("extra_modules", []) + ["RefmtProofs.Props.C15Prog"]
PROPS["C15"]["claim"] += (" Since C15Prog: both decoder models are proved equal to programs over the three reader operations (mirrors "
    "of every model function, for every reader state incl. faults and push-back), hence decoding over the scheduled reader "
    "(readerToScanner + ReadAtLeast under any legal chunking, empty reads, EOF-with-data) yields exactly the tokens, outcome, step "
    "count and allocation count of the cursor-based decode, and any two schedules agree (…_decode_schedule_independent).")

# C13 / C11 / C01: completeness on the whole domain
_full = ["Refmt.C13Full.clone_equal_full", "Refmt.C13Full.complete_full_perm", "Refmt.C13Full.clone_full_rt", "Refmt.C13Full.structTy_fullTy",
         "Refmt.C13Full.isU_side", "Refmt.C13Full.clone_equal_untyped_native"]
PROPS["C13"]["theorems"] += ["Refmt.C13Full.complete_full_perm", "Refmt.C13Full.structTy_fullTy"]
PROPS["C13"]["extra_modules"] = PROPS["C13"].get("extra_modules", []) + ["RefmtProofs.Props.C13Full"]
PROPS["C13"]["claim"] += (" Since C13Full: completeness (every rendering the marshaller produces is accepted, completes on its last token "
    "and reconstructs normV up to map entry order) holds on the whole domain fullTy: plain kinds, struct maps (tagged or not), keyed "
    "unions, transforms (under the stated condition on the user functions), untyped slots holding native values or values of tagged "
    "registered types, nested arbitrarily.")
PROPS["C11"]["theorems"] += ["Refmt.C13Full.clone_equal_full", "Refmt.C13Full.clone_equal_untyped_native"]
PROPS["C11"]["extra_modules"] = PROPS["C11"].get("extra_modules", []) + ["RefmtProofs.Props.C13Full"]
PROPS["C11"]["claim"] += (" Since C13Full.clone_equal_full the equality half covers unions, transforms and untyped slots as well (fullTy).")
PROPS["C01"]["theorems"] += ["Refmt.C01Full.roundtrip_full_cbor", "Refmt.C13Full.clone_equal_full"]
PROPS["C01"]["extra_modules"] = PROPS["C01"].get("extra_modules", []) + ["RefmtProofs.Props.C01Full", "RefmtProofs.Props.C13Full"]
PROPS["C01"]["claim"] += (" Since C01Full.roundtrip_full_cbor: for CBOR the full statement holds on the whole domain fullTy (structs, unions, "
    "transforms, untyped slots, nested arbitrarily): Marshal to bytes then Unmarshal returns normV up to map entry order.")

# C03 / C12 / C01: the float text round trip is SEMANTIC: the number read back is the float that was written
PROPS["C03"]["theorems"] += ["Refmt.C03Sem.numTok_jsonFloat", "Refmt.C03Sem.numTok_jsonFloat_nz", "Refmt.C03Sem.numTok_jsonFloat_kinds",
                             "Refmt.FloatL.shortest_roundtrip", "Refmt.FloatL.roundRat_spec"]
PROPS["C03"]["extra_modules"] += ["RefmtProofs.Props.C03Sem", "RefmtProofs.Lemmas.FloatFuel", "RefmtProofs.Lemmas.FloatRound"]
PROPS["C03"]["claim"] += (" Since C03Sem the float leg is semantic too: `roundRat` (the model of correctly rounded parsing) returns v for every "
    "rational in v's rounding interval, the shortest-digits search always finds a candidate in that interval, hence for every finite "
    "float x the text written re-reads as the float x itself or, when the text is integral, as the integer whose float64 value is x "
    "(-0 re-reads as 0, as the property says).")
PROPS["C12"]["theorems"] += ["Refmt.C03Sem.floatStable_finite", "Refmt.C03Sem.jsonU_float_clause"]
PROPS["C12"]["extra_modules"] += ["RefmtProofs.Props.C03Sem"]
PROPS["C12"]["claim"] += (" Since C03Sem.floatStable_finite the per-float condition of fixpoint_json holds for every finite float other than -0.")
PROPS["C01"]["theorems"] += ["Refmt.C03Sem.rereadOk_finite", "Refmt.C03Sem.plainJson_float"]
PROPS["C01"]["extra_modules"] += ["RefmtProofs.Props.C03Sem"]
PROPS["C01"]["claim"] += (" Since C03Sem.rereadOk_finite the per-float condition `rereadOk` of the JSON theorems holds for every finite float other than -0.")

def rule_numbytes(body, I, M):
    """C09 on the wire: as rule_roundtrip; in addition, accepting a number where the (proved) store model rejects it as
    not fitting is a property violation, not just a correspondence break."""
    r = rule_roundtrip(body, I, M)
    i, m = I.get("I", ""), M.get("M", "")
    if r["prop_ok"] and i.endswith("/ok") and m.endswith("/err"):
        r["prop_ok"], r["why"] = False, "accepted %s where the specification rejects the number as not fitting the target" % i[:80]
    if r["prop_ok"] and i.endswith("/ok") and m.endswith("/ok") and i != m and body.startswith("unmbytes"):
        # the store model is proved exact (C09.store_exact, untyped_exact): another accepted value is a changed number
        r["prop_ok"], r["why"] = False, "stored %s, the exact value is %s" % (i[:80], m[:80])
    return r
RULES["numbytes"] = rule_numbytes
for _s in PROPS["C09"]["streams"]:
    if _s["name"] == "numbytes":
        _s["rule"] = "numbytes"

# C01: the JSON round trip on the whole domain
PROPS["C01"]["theorems"] += ["Refmt.C01JsonFull.roundtrip_full_json", "Refmt.C01JsonFull.roundtrip_full_json_exact", "Refmt.C01JsonFull.transport_json'"]
PROPS["C01"]["extra_modules"] += ["RefmtProofs.Props.C01JsonFull"]
PROPS["C01"]["claim"] += (" Since C01JsonFull.roundtrip_full_json the JSON statement holds on the whole domain as well: for every type of fullTy "
    "whose atlas names are valid UTF-8 and every value JSON can carry (no byte strings, finite floats, valid UTF-8 text, untyped slots "
    "holding native values) Marshal to JSON text (any Line/Indent options) then Unmarshal returns normV .json up to map entry order: "
    "-0 comes back as 0, integral floats in untyped slots as integers, uint64 below 2^63 in untyped slots as int. A registered tagged "
    "type inside an untyped slot cannot be reconstructed from JSON (tags are not written): kernel-checked examples show what comes back.")

# C10: the transcoded document DENOTES the same value (not only: is accepted / equals the batch composition)
PROPS["C10"]["theorems"] += ["Refmt.C10Value.c2j_denotes", "Refmt.C10Value.c2j_denotes_ref", "Refmt.C10Value.c2j_float_leaf", "Refmt.C10Value.j2c_denotes"]
PROPS["C10"]["extra_modules"] = PROPS["C10"].get("extra_modules", []) + ["RefmtProofs.Props.C10Value"]
PROPS["C10"]["claim"] += (" Since C10Value: CBOR to JSON: decoding the pump's JSON output yields the source item's tokens up to the re-typing JSON "
    "implies (lengths unknown, integers by range, every finite float as the same number: C03Sem); JSON to CBOR: decoding the pump's CBOR "
    "output yields the source tokens up to the spelling of non-negative integers.")
# C16: faults through the pump (also on the very last Write, when source and sink both report done)
PROPS["C16"]["theorems"] += ["Refmt.C16Pump.pump_no_fault_same", "Refmt.C16Pump.pump_write_fault_cbor", "Refmt.C16Pump.pump_write_fault_json",
    "Refmt.C16Pump.pump_write_fault_c2j", "Refmt.C16Pump.pump_write_fault_c2c", "Refmt.C16Pump.pump_write_fault_j2c", "Refmt.C16Pump.pump_write_fault_j2j",
    "Refmt.C16Pump.pump_fault_on_last_write_c2j", "Refmt.C16Pump.pump_fault_on_last_write_j2c"]
PROPS["C16"]["extra_modules"] = PROPS["C16"].get("extra_modules", []) + ["RefmtProofs.Props.C16Pump"]
PROPS["C16"]["claim"] += (" Since C16Pump the same holds through the lock-step pump model (TokenPump.Run over a sink whose writer fails): for "
    "every well-formed source document, in all four transcoding directions, an effective write fault makes the pump return an error - "
    "including a fault on the last Write, made while source and sink both report done - and without a fault the faulty-writer pump is "
    "the plain pump.")
# C17: a long-lived codec instance = a fresh one, for every history
PROPS["C17"]["theorems"] += ["Refmt.C17Reuse.reused_eq_fresh_cbor_enc", "Refmt.C17Reuse.reused_eq_fresh_json_enc", "Refmt.C17Reuse.reused_eq_fresh_cbor_dec",
    "Refmt.C17Reuse.reused_eq_fresh_json_dec", "Refmt.C17Reuse.history_irrelevant_cbor_enc", "Refmt.C17Reuse.history_irrelevant_json_enc",
    "Refmt.C17Reuse.history_irrelevant_cbor_dec", "Refmt.C17Reuse.history_irrelevant_json_dec", "Refmt.C17Reuse.frame_cbor_reused", "Refmt.C17Reuse.frame_json_reused"]
PROPS["C17"]["extra_modules"] = PROPS["C17"].get("extra_modules", []) + ["RefmtProofs.Props.C17Reuse"]
PROPS["C17"]["claim"] += (" Since C17Reuse these are composed into the statement the property makes, for the codec instances: a call on an instance "
    "in ANY state (after any history of complete, abandoned or failed calls) gives exactly the result of a fresh instance, and a "
    "reused decoder frames a stream of items like a fresh one per item.")
# C12: the typed leg (b2 still decodes into v's own type to the specified value)
PROPS["C12"]["theorems"] += ["Refmt.C12Typed.remarshal_typed_leg_tokens", "Refmt.C12Typed.remarshal_typed_same_as_first_pass",
                             "Refmt.C12Typed.remarshal_typed_leg_cbor", "Refmt.C12Typed.remarshal_typed_leg_json"]
PROPS["C12"]["extra_modules"] += ["RefmtProofs.Props.C12Typed"]
PROPS["C12"]["claim"] += (" Since C12Typed the other half is proved as well, on fullTy for atlases without tagged entries: the untyped pass over "
    "Marshal(v) succeeds, its re-marshal t2 (struct fields now in key order, non-negative integers re-spelled) is read by the unmarshaller "
    "of v's own type as exactly what it reads from the first document, i.e. the specified value (token level; CBOR byte level; JSON "
    "byte level for typed targets without floats). With tagged entries the chain is evaluated on examples and tied by the stream; an atlas "
    "that registers one tag twice breaks it (kernel-checked example).")

# C12: the typed leg with tagged entries
PROPS["C12"]["theorems"] += ["Refmt.C12Tagged.remarshal_typed_leg_tokens_tagged", "Refmt.C12Tagged.remarshal_idempotent",
                             "Refmt.C12Tagged.remarshal_typed_leg_cbor_tagged", "Refmt.C12Tagged.tagged_statement_false"]
PROPS["C12"]["extra_modules"] += ["RefmtProofs.Props.C12Tagged"]
PROPS["C12"]["claim"] += (" Since C12Tagged the typed leg also covers atlases with tagged entries (the untyped pass reconstructs the registered "
    "type and re-marshals it through the typed machine), under TagsOk (each tagged entry is found under its own tag) and TagStab (below a "
    "tagged type: omitempty only on fields whose emptiness the round trip cannot change; transform pairs are retractions); without "
    "TagStab the statement is false in the model in exactly the way the property's equality tolerates (empty vs nil under omitempty): "
    "tagged_statement_false.")

# C09 through Clone: integers cloned into variables of other integer kinds
def rule_numclone(body, I, M):
    r = rule_clone(body, I, M)
    i, m = I.get("I", ""), M.get("M", "")
    if r["prop_ok"] and i.endswith("/ok") and m.endswith("/err"):
        r["prop_ok"], r["why"] = False, "accepted %s where the specification rejects the number as not fitting the target" % i[:80]
    return r
RULES["numclone"] = rule_numclone
PROPS["C09"]["streams"].append(dict(name="numclone", gen="numclone", rule="numclone"))
PROPS["C09"]["rule_text"] += ("; numclone: boundary integers of every integer kind cloned (refmt.Clone, source by value and by pointer) into "
    "variables of every other numeric kind and untyped slots, and slices of them: result compared with the model (marshal by the source type, "
    "unmarshal by the destination type) and checked exact by an arbitrary-precision oracle")

# Long-lived instances are entry points of the same encoders, decoders and machines: the reuse histories (stream hist) also
# run under the properties whose code they exercise (a decoder that mis-reads the item after a failed one violates C04, an
# encoder that rejects the item after an empty container violates C14, an unmarshaller that keeps machines of a rejected
# value violates C13).
for _pid, _why in (("C04", "one long-lived cbor Unmarshaller / Decoder over several items, including items after failed ones"),
                   ("C13", "one long-lived obj Unmarshaller re-bound after completed, rejected and abandoned values"),
                   ("C05", "one long-lived json Unmarshaller / Decoder over several items, including items after failed and truncated ones"),
                   ("C08", "the same value marshalled again and again by one long-lived Marshaller, with abandoned and refused runs in between"),
                   ("C07", "one long-lived obj Marshaller over several values, including values after runs abandoned at every Write position"),
                   ("C14", "one long-lived encoder (through Marshaller) over several items, including items after empty containers and abandoned items")):
    PROPS[_pid]["streams"].append(dict(name="hist", gen="hist", rule="hist"))
    PROPS[_pid]["rule_text"] += "; hist: " + _why + " - every call compared with a fresh instance and with the model"

# C08: the order stream's model output is the configured order (C08.sortKeys_sorted / sortKeys_unique: the unique sorted
# permutation under the configured comparator); an accepted output with the same tokens in ANOTHER order is a violation of
# the property itself, with the case as the failing input
def rule_order(body, I, M):
    r = rule_obj(body, I, M)
    i, m = I.get("I", ""), M.get("M", "")
    if r["prop_ok"] and i != m and i.endswith("/ok") and m.endswith("/ok") and sorted(i.split(",")) == sorted(m.split(",")):
        r["prop_ok"] = False
        r["why"] = "keys come out in another order than the configured one: %s, configured order gives %s" % (i[:200], m[:200])
    return r
RULES["order"] = rule_order
for _s in PROPS["C08"]["streams"]:
    if _s["name"] == "order":
        _s["rule"] = "order"

# C17 (and the properties the reuse histories also run under): the re-initialisation discipline of everything that is
# reused, regenerated from the source on every run (tools/extract/machines.go -> Gen/Machines.lean)
PROPS["C17"]["theorems"] += ["Refmt.C17Machines.requisition_zero", "Refmt.C17Machines.release_grow", "Refmt.C17Machines.bind_forgets",
    "Refmt.C17Machines.first_machine_independent_of_history", "Refmt.C17Machines.every_requisition_zero", "Refmt.C17Machines.writeTip_keeps_parents",
    "Refmt.C17Machines.slab_discipline_as_modelled", "Refmt.C17Machines.accounted_table", "Refmt.C17Machines.every_field_accounted"]
PROPS["C17"]["extra_modules"] = PROPS["C17"].get("extra_modules", []) + ["RefmtProofs.Props.C17Machines"]
PROPS["C17"]["claim"] += (" Since C17Machines the object layer's reuse is tied statically as well: a model of the slab (grow appends a zero row, "
    "release drops the tip, Bind forgets everything) in which a requisitioned row is the zero row after ANY history and two instances with "
    "any two pasts agree after Bind; the source text of grow / release / Bind and a table of every field of every struct with a Reset method "
    "(obj machines, cbor / json / pretty encoders and decoders: assigned by Reset at top level, under a condition, never; assigned at every "
    "yield site, some, none) are regenerated from the working tree on every run; the text must equal the audited one, and every field must be "
    "written for every use or be one of 15 audited carried fields, each with its reason (C17Machines.carried).")

# C17 / C07: the STATEFUL model of obj.Marshaller (slab rows, machine stack, one token per Step, Bind) refines the functional
# model from any state the instance was left in (C17ObjMarshal, about 4300 lines), and is itself tied to the code: a quarter of
# the marshal stream is also run through it (op marshalm), starting from an instance that abandoned a run
PROPS["C17"]["theorems"] += ["Refmt.C17ObjMarshal.marshaller_refines_fixed", "Refmt.C17ObjMarshal.marshaller_refines_statement_false",
    "Refmt.C17ObjMarshal.reused_eq_fresh", "Refmt.C17ObjMarshal.completed_run_stack_empty"]
PROPS["C17"]["extra_modules"] = PROPS["C17"].get("extra_modules", []) + ["RefmtProofs.Props.C17ObjMarshal"]
PROPS["C17"]["claim"] += (" Since C17ObjMarshal the object MARSHALLER's reuse is proved for a model that has the code's structure: a stateful model "
    "(RefmtModel/Model/Obj/MarshalMach.lean: one row per requisition with a sub-struct per machine holding the Go fields, machine stack, "
    "current machine, grow / release / yield without zeroing, Reset and Step per machine emitting one token per call, Recurse, Bind) and "
    "the theorem marshaller_refines_fixed: for every atlas without same-row clashes (NoClash, decidable), every type, value and EVERY "
    "dirty starting state (any rows, any stack, any leftover fields, a run abandoned anywhere), after Bind the stateful marshaller emits "
    "exactly the functional model's tokens and outcome; reused_eq_fresh holds for every atlas. The full statement without NoClash is "
    "FALSE (marshaller_refines_statement_false): with a transform whose serial type needs a transform itself the stateful model gets "
    "stuck - and the real code panicked (Marshal) or overflowed the stack (Unmarshal): repaired in /repo (e9d1a55, 412331a), atlas 90 of "
    "the zoo pins the repaired behaviour.")
PROPS["C07"]["theorems"] += ["Refmt.C17ObjMarshal.marshaller_refines_fixed"]
PROPS["C07"]["extra_modules"] = PROPS["C07"].get("extra_modules", []) + ["RefmtProofs.Props.C17ObjMarshal"]
PROPS["C07"]["rule_text"] += ("; marshalm: every fourth marshal case again through the stateful model of the marshaller (from an instance that "
    "abandoned a run after three tokens), and the chained-transform atlas 90, which the library must refuse without panicking")

# C17 / C13: the stateful model of obj.Unmarshaller (all machines; refinement proved for the scalar fragment, reuse for every
# atlas), tied through the unmarshal stream (op unmarshalm: every rendering and one mutation of it, from an instance abandoned
# after three tokens of the same input)
PROPS["C17"]["theorems"] += ["Refmt.C17ObjUnmarshal.unmarshaller_refines_partial", "Refmt.C17ObjUnmarshal.reused_eq_fresh",
    "Refmt.C17ObjUnmarshal.unmarshaller_refines_statement_false"]
PROPS["C17"]["extra_modules"] = PROPS["C17"].get("extra_modules", []) + ["RefmtProofs.Props.C17ObjUnmarshal"]
PROPS["C17"]["claim"] += (" Since C17ObjUnmarshal the object UNMARSHALLER has a stateful model too (Model/Obj/UnmarshalMach.lean, every machine: "
    "pointers, primitives with their range checks, untyped slots with tags, maps, slices, arrays, struct maps, transforms, keyed unions, "
    "error thunks; targets as slots handed back to the parent on done). Proved: reused_eq_fresh for every atlas, and the refinement of "
    "the functional model from every dirty state for scalar targets behind any number of pointers (unmarshaller_refines_partial); the "
    "multi-token simulation for containers is NOT proved (unmarshaller_refines_fixed_statement is kept as a definition) - for those the "
    "stateful model is tied to the code and to the functional model by the correspondence check only (about 9000 unmarshalm cases per "
    "quick run, none differing). The full statement is false (clash_chain, clash_union): a union whose member is a union made the real "
    "code overflow its stack; repaired in /repo (60df5ae).")
PROPS["C13"]["rule_text"] += ("; unmarshalm / unmarshalr: every marshaller rendering and one mutation of it again through the stateful model of "
    "the unmarshaller, from an instance abandoned after three tokens; atlas 90 (chained transforms, a transform receiving a pointer type, "
    "a union whose member is a union), which the library must refuse without panicking or overflowing the stack")

# C17ObjUnmarshalFull: the unmarshaller's refinement for everything but keyed unions and atlas-resolved tags
PROPS["C17"]["theorems"] += ["Refmt.C17ObjUnmarshal.unmarshaller_refines_frag", "Refmt.C17ObjUnmarshal.unmarshaller_refines_target",
    "Refmt.C17ObjUnmarshal.unmarshaller_refines_fixed_frag", "Refmt.C17ObjUnmarshal.unmarshaller_refines_fixed_statement_false"]
PROPS["C17"]["extra_modules"] = PROPS["C17"].get("extra_modules", []) + ["RefmtProofs.Props.C17ObjUnmarshalFull"]
PROPS["C17"]["claim"] += (" Since C17ObjUnmarshalFull (about 3900 lines) the unmarshaller's refinement is proved far beyond scalars: for every target "
    "type whose reachable types (FragTarget, decidable) use the primitive machine, error thunks, pointers (up to 64 levels), slices, arrays, "
    "maps with string or transformed keys, struct maps with ignored keys, untyped slots (scalars and nested untyped containers, atlases "
    "without tagged entries) and transforms over those - recursive types included - the stateful unmarshaller started from ANY dirty "
    "instance, with ANY current content of the target, gives the functional model's outcome on every token list "
    "(unmarshaller_refines_frag / _target / _fixed_frag). Not covered by a theorem: keyed unions and tags resolved through the atlas (both "
    "re-configure a row in place); there the unmarshalm cases are the tie. Two further places where the two models differ are proved and "
    "excluded by decidable hypotheses (more than 64 pointer levels below a container; a union member whose Reset fails reports its error "
    "one token earlier in the stateful model).")
PROPS["C13"]["theorems"] += ["Refmt.C17ObjUnmarshal.unmarshaller_refines_target"]
PROPS["C13"]["extra_modules"] = PROPS["C13"].get("extra_modules", []) + ["RefmtProofs.Props.C17ObjUnmarshalFull"]

# C17ObjUnmarshalUnion: keyed unions and atlas-resolved tags (about 4900 lines)
PROPS["C17"]["theorems"] += ["Refmt.C17ObjUnmarshal.unmarshaller_refines_frag_union", "Refmt.C17ObjUnmarshal.unmarshaller_refines_target_union",
    "Refmt.C17ObjUnmarshal.unmarshaller_refines_target_tags"]
PROPS["C17"]["extra_modules"] = PROPS["C17"].get("extra_modules", []) + ["RefmtProofs.Props.C17ObjUnmarshalUnion"]
PROPS["C17"]["claim"] += (" Since C17ObjUnmarshalUnion the two remaining machines are covered as well: keyed unions anywhere (target, element, struct "
    "field, behind pointers, recursively) whose members are struct-map, map or transform-over-container entries "
    "(unmarshaller_refines_target_union, FragTargetU), and tagged tokens resolved through the atlas in untyped slots - entry found, "
    "entry not found, slot of an interface type with methods; tags on typed targets, keys and closes ignored by both models "
    "(unmarshaller_refines_target_tags, FragTargetT). Left out by these two theorems: a union member or tagged entry that is a "
    "transform over a PRIMITIVE receive type or a bare primitive / union / wildcard entry (the proof would need an extra row invariant); "
    "the zoo has such entries, and for them the unmarshalm cases remain the tie.")
PROPS["C13"]["theorems"] += ["Refmt.C17ObjUnmarshal.unmarshaller_refines_target_union", "Refmt.C17ObjUnmarshal.unmarshaller_refines_target_tags"]
PROPS["C13"]["extra_modules"] = PROPS["C13"].get("extra_modules", []) + ["RefmtProofs.Props.C17ObjUnmarshalUnion"]

# C10: the transcoder accepts what the decoder accepts: the decoder's size caps (and where they are checked) are part of it
PROPS["C10"]["theorems"] += ["Refmt.Facts.caps_checked_before_allocation"]
PROPS["C10"]["extra_modules"] = PROPS["C10"].get("extra_modules", []) + ["RefmtProofs.Facts"]

# C13: the functional unmarshaller model is the specification of "fits" (completeness and soundness proved: C13, C13Full); a
# stream it accepts and the code rejects (or the other way round) is a violation of the property with that stream as the witness
def rule_unm(body, I, M):
    r = rule_obj(body, I, M)
    i, m = I.get("I", ""), M.get("M", "")
    if r["prop_ok"] and body.startswith("unmarshal") and i != m and i and m:
        if m.endswith("D") and i.endswith("E"):
            r["prop_ok"], r["why"] = False, "rejected (%s) a token stream that fits the type: the specification accepts it (%s)" % (i[-12:], m[-12:])
        elif i.endswith("D") and m.endswith("E"):
            r["prop_ok"], r["why"] = False, "accepted (%s) a token stream that does not fit the type: the specification rejects it (%s)" % (i[-12:], m[-12:])
    return r
RULES["unm"] = rule_unm
for _s in PROPS["C13"]["streams"]:
    if _s["name"] == "unmarshal":
        _s["rule"] = "unm"
