package main

// extract: regenerate, from /repo's working tree, the facts the Lean theorems lean on.
//
//   Gen/Consts.lean       constants read off the Go AST (CBOR major types and sigils, the head-size
//                         thresholds of emitMajorPlusLen, the 32 MiB caps and whether each cap check
//                         precedes the read/allocation it guards, the JSON float format cut-offs,
//                         the token type codes, the key-sort mode names)
//   Gen/SharedWrites.lean every SSA store to package-level state of a refmt package outside init
//                         functions, and every store to a field / element of the atlas types outside
//                         the builder functions (C18: shared state is read-only after construction)
//
// A site that can no longer be recognised is emitted as `none`, which makes the obligation that
// needs it fail.

import (
	"fmt"
	"go/ast"
	"go/constant"
	"go/token"
	"go/types"
	"os"
	"path/filepath"
	"sort"
	"strings"

	"golang.org/x/tools/go/packages"
	"golang.org/x/tools/go/ssa"
	"golang.org/x/tools/go/ssa/ssautil"
)

func main() {
	if len(os.Args) < 3 {
		fmt.Fprintln(os.Stderr, "usage: extract <repo> <outdir>")
		os.Exit(2)
	}
	repo, outdir := os.Args[1], os.Args[2]
	cfg := &packages.Config{Mode: packages.LoadAllSyntax, Dir: repo, Env: append(os.Environ(), "GOFLAGS=-mod=mod", "GOPROXY=off", "GOSUMDB=off")}
	pkgs, err := packages.Load(cfg, "github.com/polydawn/refmt", "github.com/polydawn/refmt/cbor", "github.com/polydawn/refmt/json",
		"github.com/polydawn/refmt/obj", "github.com/polydawn/refmt/obj/atlas", "github.com/polydawn/refmt/shared",
		"github.com/polydawn/refmt/tok", "github.com/polydawn/refmt/pretty")
	if err != nil {
		fmt.Fprintln(os.Stderr, "load:", err)
		os.Exit(1)
	}
	if packages.PrintErrors(pkgs) > 0 {
		os.Exit(1)
	}
	byPath := map[string]*packages.Package{}
	for _, p := range pkgs {
		byPath[p.PkgPath] = p
	}
	if err := os.MkdirAll(outdir, 0o755); err != nil {
		panic(err)
	}
	writeConsts(byPath, filepath.Join(outdir, "Consts.lean"))
	writeSharedWrites(pkgs, filepath.Join(outdir, "SharedWrites.lean"))
	writeMachines(byPath, filepath.Join(outdir, "Machines.lean"))
}

// ---------------------------------------------------------------- constants

func constVal(p *packages.Package, name string) string {
	obj := p.Types.Scope().Lookup(name)
	if c, ok := obj.(*types.Const); ok {
		if v, ok := constant.Uint64Val(constant.ToInt(c.Val())); ok {
			return fmt.Sprintf("some %d", v)
		}
	}
	return "none"
}

func findFunc(p *packages.Package, recv, name string) *ast.FuncDecl {
	for _, f := range p.Syntax {
		for _, d := range f.Decls {
			fd, ok := d.(*ast.FuncDecl)
			if !ok || fd.Name.Name != name {
				continue
			}
			if recv == "" && fd.Recv == nil {
				return fd
			}
			if fd.Recv != nil && len(fd.Recv.List) == 1 {
				t := fd.Recv.List[0].Type
				if s, ok := t.(*ast.StarExpr); ok {
					t = s.X
				}
				if id, ok := t.(*ast.Ident); ok && id.Name == recv {
					return fd
				}
			}
		}
	}
	return nil
}

func evalConst(p *packages.Package, e ast.Expr) (uint64, bool) {
	tv, ok := p.TypesInfo.Types[e]
	if !ok || tv.Value == nil {
		return 0, false
	}
	if tv.Value.Kind() == constant.Float {
		f, _ := constant.Float64Val(tv.Value)
		if f >= 0 && f == float64(uint64(f)) {
			return uint64(f), true
		}
		return 0, false
	}
	return constant.Uint64Val(constant.ToInt(tv.Value))
}

// thresholds of the `if v <= X {…} else if v <= Y …` chain in emitMajorPlusLen
func headThresholds(p *packages.Package) []string {
	fd := findFunc(p, "Encoder", "emitMajorPlusLen")
	var out []string
	if fd == nil {
		return out
	}
	var walk func(s ast.Stmt)
	walk = func(s ast.Stmt) {
		is, ok := s.(*ast.IfStmt)
		if !ok {
			return
		}
		if be, ok := is.Cond.(*ast.BinaryExpr); ok && be.Op == token.LEQ {
			if v, ok := evalConst(p, be.Y); ok {
				out = append(out, fmt.Sprint(v))
			}
		}
		if is.Else != nil {
			walk(is.Else)
		}
	}
	for _, s := range fd.Body.List {
		walk(s)
		// the same chain written as a tagless switch: `switch { case v <= X: … case v <= Y: … default: … }`
		if sw, ok := s.(*ast.SwitchStmt); ok && sw.Tag == nil {
			for _, c := range sw.Body.List {
				cc, ok := c.(*ast.CaseClause)
				if !ok || len(cc.List) != 1 {
					continue
				}
				if be, ok := cc.List[0].(*ast.BinaryExpr); ok && be.Op == token.LEQ {
					if v, ok := evalConst(p, be.Y); ok {
						out = append(out, fmt.Sprint(v))
					}
				}
			}
		}
	}
	return out
}

// every `n > CONST` guard in a function, with whether it textually precedes the first read/alloc call
func capGuards(p *packages.Package, recv, name string) []string {
	fd := findFunc(p, recv, name)
	var out []string
	if fd == nil {
		return []string{"none"}
	}
	firstRead := token.NoPos
	ast.Inspect(fd.Body, func(n ast.Node) bool {
		if ce, ok := n.(*ast.CallExpr); ok {
			if se, ok := ce.Fun.(*ast.SelectorExpr); ok {
				switch se.Sel.Name {
				case "Readn", "Readnzc", "Readb":
					if firstRead == token.NoPos || ce.Pos() < firstRead {
						firstRead = ce.Pos()
					}
				}
			}
			if id, ok := ce.Fun.(*ast.Ident); ok && id.Name == "make" && len(ce.Args) >= 2 {
				// make(..., n, …) sized from input (constant-sized makes do not count)
				dynamic := false
				for _, a := range ce.Args[1:] {
					if tv, ok := p.TypesInfo.Types[a]; !ok || tv.Value == nil {
						dynamic = true
					}
				}
				if dynamic && (firstRead == token.NoPos || ce.Pos() < firstRead) {
					firstRead = ce.Pos()
				}
			}
		}
		return true
	})
	ast.Inspect(fd.Body, func(n ast.Node) bool {
		if is, ok := n.(*ast.IfStmt); ok {
			if be, ok := is.Cond.(*ast.BinaryExpr); ok && be.Op == token.GTR {
				if v, ok := evalConst(p, be.Y); ok && v > 1<<20 {
					before := firstRead == token.NoPos || is.Pos() < firstRead
					returns := false
					for _, s := range is.Body.List {
						if _, ok := s.(*ast.ReturnStmt); ok {
							returns = true
						}
					}
					out = append(out, fmt.Sprintf("(%d, %v)", v, before && returns))
				}
			}
		}
		return true
	})
	if len(out) == 0 {
		return []string{"none"}
	}
	for i := range out {
		out[i] = "some " + out[i]
	}
	return out
}

// float cut-offs in json emitFloat: the constants compared with `abs`
func floatCutoffs(p *packages.Package) (lo string, hi string) {
	lo, hi = "none", "none"
	fd := findFunc(p, "Encoder", "emitFloat")
	if fd == nil {
		return
	}
	ast.Inspect(fd.Body, func(n ast.Node) bool {
		be, ok := n.(*ast.BinaryExpr)
		if !ok {
			return true
		}
		if id, ok := be.X.(*ast.Ident); ok && id.Name == "abs" {
			tv := p.TypesInfo.Types[be.Y]
			if tv.Value == nil {
				return true
			}
			switch be.Op {
			case token.LSS:
				f, _ := constant.Float64Val(tv.Value)
				lo = fmt.Sprintf("some %q", fmt.Sprintf("%g", f))
			case token.GEQ:
				if v, ok := evalConst(p, be.Y); ok {
					hi = fmt.Sprintf("some %d", v)
				}
			}
		}
		return true
	})
	return
}

func writeConsts(pk map[string]*packages.Package, path string) {
	cb := pk["github.com/polydawn/refmt/cbor"]
	js := pk["github.com/polydawn/refmt/json"]
	tk := pk["github.com/polydawn/refmt/tok"]
	at := pk["github.com/polydawn/refmt/obj/atlas"]
	var sb strings.Builder
	sb.WriteString("/- GENERATED by tools/extract from /repo's working tree; do not edit. -/\nnamespace Refmt.Gen\n\n")
	for _, n := range []string{"cborMajorUint", "cborMajorNegInt", "cborMajorBytes", "cborMajorString", "cborMajorArray", "cborMajorMap", "cborMajorTag",
		"cborMajorSimple", "cborSigilFalse", "cborSigilTrue", "cborSigilNil", "cborSigilUndefined", "cborSigilFloat16", "cborSigilFloat32",
		"cborSigilFloat64", "cborSigilIndefiniteBytes", "cborSigilIndefiniteString", "cborSigilIndefiniteArray", "cborSigilIndefiniteMap", "cborSigilBreak"} {
		sb.WriteString(fmt.Sprintf("def %s : Option Nat := %s\n", n, constVal(cb, n)))
	}
	sb.WriteString(fmt.Sprintf("\n/-- the `v <= X` thresholds of emitMajorPlusLen, in order -/\ndef headThresholds : List Nat := [%s]\n", strings.Join(headThresholds(cb), ", ")))
	sb.WriteString(fmt.Sprintf("\n/-- (cap, the check returns before the first read/allocation) per guarded site -/\ndef capDecodeBytes : List (Option (Nat × Bool)) := [%s]\n",
		strings.Join(capGuards(cb, "Decoder", "decodeBytes"), ", ")))
	sb.WriteString(fmt.Sprintf("def capDecodeString : List (Option (Nat × Bool)) := [%s]\n", strings.Join(capGuards(cb, "Decoder", "decodeString"), ", ")))
	sb.WriteString(fmt.Sprintf("def capDecodeChunks : List (Option (Nat × Bool)) := [%s]\n", strings.Join(capGuards(cb, "Decoder", "decodeBytesOrStringIndefinite"), ", ")))
	lo, hi := floatCutoffs(js)
	sb.WriteString(fmt.Sprintf("\ndef jsonFloatLowCutoff : Option String := %s\ndef jsonFloatHighCutoff : Option Nat := %s\n", lo, hi))
	sb.WriteString("\n/-- token type codes -/\n")
	for _, n := range []string{"TMapOpen", "TMapClose", "TArrOpen", "TArrClose", "TNull", "TString", "TBytes", "TBool", "TInt", "TUint", "TFloat64"} {
		sb.WriteString(fmt.Sprintf("def %s : Option Nat := %s\n", n, constVal(tk, n)))
	}
	var modes []string
	for _, n := range []string{"KeySortMode_Default", "KeySortMode_Strings", "KeySortMode_RFC7049"} {
		if c, ok := at.Types.Scope().Lookup(n).(*types.Const); ok {
			modes = append(modes, c.Val().ExactString())
		}
	}
	sb.WriteString(fmt.Sprintf("\ndef keySortModes : List String := [%s]\n", strings.Join(modes, ", ")))
	sb.WriteString("\nend Refmt.Gen\n")
	if err := os.WriteFile(path, []byte(sb.String()), 0o644); err != nil {
		panic(err)
	}
}

// ---------------------------------------------------------------- shared writes

var atlasTypes = map[string]bool{"Atlas": true, "AtlasEntry": true, "StructMap": true, "StructMapEntry": true, "MapMorphism": true, "UnionKeyedMorphism": true}

func isBuilder(fn *ssa.Function) bool {
	name := fn.Name()
	if fn.Parent() != nil {
		return isBuilder(fn.Parent())
	}
	if strings.HasPrefix(name, "Build") || strings.HasPrefix(name, "MustBuild") || strings.HasPrefix(name, "Autogenerate") ||
		name == "exploreFields" || name == "dominantField" || name == "WithMapMorphism" || name == "Swap" {
		return true
	}
	if recv := fn.Signature.Recv(); recv != nil {
		t := recv.Type().String()
		if strings.Contains(t, "Builder") {
			return true
		}
	}
	return false
}

func namedOf(t types.Type) string {
	for {
		switch x := t.(type) {
		case *types.Pointer:
			t = x.Elem()
			continue
		case *types.Named:
			return x.Obj().Name()
		}
		return ""
	}
}

// rootOf follows an address back to what it is derived from.
func rootOf(v ssa.Value, depth int) ssa.Value {
	if depth > 20 {
		return v
	}
	switch x := v.(type) {
	case *ssa.FieldAddr:
		return rootOf(x.X, depth+1)
	case *ssa.IndexAddr:
		return rootOf(x.X, depth+1)
	case *ssa.UnOp:
		return rootOf(x.X, depth+1)
	case *ssa.Field:
		return rootOf(x.X, depth+1)
	case *ssa.ChangeType:
		return rootOf(x.X, depth+1)
	case *ssa.Slice:
		return rootOf(x.X, depth+1)
	}
	return v
}

func writeSharedWrites(pkgs []*packages.Package, path string) {
	prog, spkgs := ssautil.AllPackages(pkgs, ssa.InstantiateGenerics)
	prog.Build()
	own := map[*ssa.Package]bool{}
	for _, p := range spkgs {
		if p != nil && strings.HasPrefix(p.Pkg.Path(), "github.com/polydawn/refmt") {
			own[p] = true
		}
	}
	var hits []string
	for fn := range ssautil.AllFunctions(prog) {
		if fn.Pkg == nil || !own[fn.Pkg] {
			continue
		}
		if fn.Name() == "init" || strings.HasPrefix(fn.Name(), "init#") || fn.Synthetic != "" && fn.Name() == "init" {
			continue
		}
		for _, b := range fn.Blocks {
			for _, ins := range b.Instrs {
				var addr ssa.Value
				kind := ""
				switch x := ins.(type) {
				case *ssa.Store:
					addr, kind = x.Addr, "store"
				case *ssa.MapUpdate:
					addr, kind = x.Map, "mapupdate"
				default:
					continue
				}
				root := rootOf(addr, 0)
				desc := ""
				if g, ok := root.(*ssa.Global); ok && g.Pkg != nil && own[g.Pkg] {
					desc = "global " + g.Pkg.Pkg.Name() + "." + g.Name()
				} else if fa, ok := addr.(*ssa.FieldAddr); ok {
					if n := namedOf(fa.X.Type()); atlasTypes[n] && !isBuilder(fn) {
						// a store into a fresh local copy (Alloc in this function) is not a write to shared state
						if _, local := root.(*ssa.Alloc); !local {
							desc = "field of " + n
						}
					}
				} else if kind == "mapupdate" {
					if fa, ok := rootOf(addr, 0).(*ssa.FieldAddr); ok {
						if n := namedOf(fa.X.Type()); atlasTypes[n] && !isBuilder(fn) {
							desc = "map field of " + n
						}
					}
					if uo, ok := addr.(*ssa.UnOp); ok {
						if fa, ok := uo.X.(*ssa.FieldAddr); ok {
							if n := namedOf(fa.X.Type()); atlasTypes[n] && !isBuilder(fn) {
								desc = "map field of " + n
							}
						}
					}
				}
				if desc != "" {
					pos := prog.Fset.Position(ins.Pos())
					hits = append(hits, fmt.Sprintf("%s in %s.%s (%s:%d)", desc, fn.Pkg.Pkg.Name(), fn.Name(), filepath.Base(pos.Filename), pos.Line))
				}
			}
		}
	}
	sort.Strings(hits)
	var sb strings.Builder
	sb.WriteString("/- GENERATED by tools/extract from /repo's working tree; do not edit. -/\nnamespace Refmt.Gen\n\n")
	sb.WriteString("/-- stores to package-level state outside init functions, and to atlas structures outside the builders -/\ndef sharedWrites : List String := [\n")
	for i, h := range hits {
		sep := ","
		if i == len(hits)-1 {
			sep = ""
		}
		sb.WriteString(fmt.Sprintf("  %q%s\n", h, sep))
	}
	sb.WriteString("]\n\nend Refmt.Gen\n")
	if err := os.WriteFile(path, []byte(sb.String()), 0o644); err != nil {
		panic(err)
	}
}
