package main

// Gen/Machines.lean: the re-initialisation discipline of everything that is reused.
//
// The Lean model of the object layer, of the encoders and of the decoders has NO per-instance state: every value is
// marshalled / unmarshalled / encoded / decoded by pure functions.  The Go code reuses machines (slab rows, encoder and
// decoder structs) and is equivalent to that only if whatever a machine reads was written for THIS use.  This extractor
// reads off, for every struct type with a Reset method in obj, cbor, json and pretty:
//
//   - its fields,
//   - for each field whether Reset assigns it as a top-level statement of its body ("R"), only inside a nested
//     statement ("r"), or not at all ("-"),
//   - for obj machines, whether each `_yield…` site that hands out the machine assigns the field in the block that
//     returns it ("Y" all sites, "y" some, "-" none),
//
// and the source text of the slab discipline (grow / release / Bind).  The table is compared in Lean with the audited
// one (RefmtProofs/MachineFacts.lean): a new field that nobody resets, a reset that was dropped or moved under a
// condition, a slab that hands out recycled rows, a Bind that keeps the stack - each changes the generated table and
// breaks the obligation.

import (
	"bytes"
	"fmt"
	"go/ast"
	"go/printer"
	"go/token"
	"go/types"
	"os"
	"sort"
	"strings"

	"golang.org/x/tools/go/packages"
)

func recvTypeName(fd *ast.FuncDecl) (string, string) {
	if fd.Recv == nil || len(fd.Recv.List) != 1 {
		return "", ""
	}
	t := fd.Recv.List[0].Type
	if s, ok := t.(*ast.StarExpr); ok {
		t = s.X
	}
	id, ok := t.(*ast.Ident)
	if !ok {
		return "", ""
	}
	name := ""
	if len(fd.Recv.List[0].Names) == 1 {
		name = fd.Recv.List[0].Names[0].Name
	}
	return id.Name, name
}

// first selector after the base identifier: base.f, base.f.g, base.f[i] -> f
func fieldOf(e ast.Expr, base string) string {
	for {
		switch x := e.(type) {
		case *ast.IndexExpr:
			e = x.X
			continue
		case *ast.StarExpr:
			e = x.X
			continue
		case *ast.ParenExpr:
			e = x.X
			continue
		case *ast.SelectorExpr:
			if id, ok := x.X.(*ast.Ident); ok {
				if id.Name == base {
					return x.Sel.Name
				}
				return ""
			}
			e = x.X
			continue
		}
		return ""
	}
}

// fields assigned through `base` in the statement list: top-level ones in top, nested ones in nested
func assignedFields(stmts []ast.Stmt, base string, top, nested map[string]bool, all func() []string) {
	note := func(lhs ast.Expr, into map[string]bool) {
		// *base = T{…} re-initialises everything
		if st, ok := lhs.(*ast.StarExpr); ok {
			if id, ok := st.X.(*ast.Ident); ok && id.Name == base {
				for _, f := range all() {
					into[f] = true
				}
				return
			}
		}
		if f := fieldOf(lhs, base); f != "" {
			// an element store (base.f[i] = …) does not re-initialise the field itself
			if _, isIndex := lhs.(*ast.IndexExpr); !isIndex {
				into[f] = true
			}
		}
	}
	var walkNested func(n ast.Node)
	walkNested = func(n ast.Node) {
		ast.Inspect(n, func(m ast.Node) bool {
			switch x := m.(type) {
			case *ast.AssignStmt:
				for _, l := range x.Lhs {
					note(l, nested)
				}
			case *ast.IncDecStmt:
				note(x.X, nested)
			case *ast.FuncLit:
				return false
			}
			return true
		})
	}
	for _, s := range stmts {
		switch x := s.(type) {
		case *ast.AssignStmt:
			for _, l := range x.Lhs {
				note(l, top)
			}
		case *ast.IncDecStmt:
			note(x.X, top)
		default:
			walkNested(s)
		}
	}
}

func structFields(p *packages.Package, name string) []string {
	obj := p.Types.Scope().Lookup(name)
	if obj == nil {
		return nil
	}
	st, ok := obj.Type().Underlying().(*types.Struct)
	if !ok {
		return nil
	}
	var out []string
	for i := 0; i < st.NumFields(); i++ {
		out = append(out, st.Field(i).Name())
	}
	return out
}

func srcOf(fset *token.FileSet, n ast.Node) string {
	var b bytes.Buffer
	printer.Fprint(&b, fset, n)
	// one line, single spaces
	return strings.Join(strings.Fields(b.String()), " ")
}

// yield sites of package obj: blocks that return &row.T (directly or through a local bound to it)
type yieldSite struct {
	typ    string
	fields map[string]bool
}

func yieldSites(p *packages.Package) []yieldSite {
	var sites []yieldSite
	for _, f := range p.Syntax {
		for _, d := range f.Decls {
			fd, ok := d.(*ast.FuncDecl)
			if !ok || fd.Body == nil {
				continue
			}
			// the yield functions, and helper methods of the row types that configure a machine and hand it out
			base := "row"
			rt, rn := recvTypeName(fd)
			if strings.HasSuffix(rt, "SlabRow") && rn != "" {
				base = rn
			} else if !strings.Contains(strings.ToLower(fd.Name.Name), "yield") && fd.Name.Name != "requisitionMachine" {
				continue
			}
			var blocks [][]ast.Stmt
			ast.Inspect(fd.Body, func(n ast.Node) bool {
				switch x := n.(type) {
				case *ast.BlockStmt:
					blocks = append(blocks, x.List)
				case *ast.CaseClause:
					blocks = append(blocks, x.Body)
				}
				return true
			})
			for _, stmts := range blocks {
				// row.T selector returned by this block (the last statement), possibly through a local
				if len(stmts) == 0 {
					continue
				}
				ret, ok := stmts[len(stmts)-1].(*ast.ReturnStmt)
				if !ok || len(ret.Results) != 1 {
					continue
				}
				local := ""
				target := ret.Results[0]
				if id, ok := target.(*ast.Ident); ok {
					// mach := &row.T earlier in the block
					for _, s := range stmts {
						if as, ok := s.(*ast.AssignStmt); ok && len(as.Lhs) == 1 && len(as.Rhs) == 1 {
							if l, ok := as.Lhs[0].(*ast.Ident); ok && l.Name == id.Name {
								target, local = as.Rhs[0], id.Name
							}
						}
					}
				}
				un, ok := target.(*ast.UnaryExpr)
				if !ok || un.Op != token.AND {
					continue
				}
				typ := fieldOf(un.X, base)
				if typ == "" {
					continue
				}
				got := map[string]bool{}
				for _, s := range stmts {
					as, ok := s.(*ast.AssignStmt)
					if !ok {
						continue
					}
					for _, l := range as.Lhs {
						// row.T.f = …   or   local.f = …
						if sel, ok := l.(*ast.SelectorExpr); ok {
							if fieldOf(sel.X, base) == typ {
								if inner, ok := sel.X.(*ast.SelectorExpr); ok && inner.Sel.Name == typ {
									got[sel.Sel.Name] = true
								}
							}
							if id, ok := sel.X.(*ast.Ident); ok && local != "" && id.Name == local {
								got[sel.Sel.Name] = true
							}
						}
					}
				}
				sites = append(sites, yieldSite{typ: typ, fields: got})
			}
		}
	}
	return sites
}

func writeMachines(pk map[string]*packages.Package, path string) {
	var rows []string
	for _, pp := range []string{"github.com/polydawn/refmt/obj", "github.com/polydawn/refmt/cbor", "github.com/polydawn/refmt/json", "github.com/polydawn/refmt/pretty"} {
		p := pk[pp]
		if p == nil {
			continue
		}
		short := pp[strings.LastIndex(pp, "/")+1:]
		var sites []yieldSite
		if short == "obj" {
			sites = yieldSites(p)
		}
		for _, f := range p.Syntax {
			for _, d := range f.Decls {
				fd, ok := d.(*ast.FuncDecl)
				if !ok || fd.Body == nil || fd.Name.Name != "Reset" {
					continue
				}
				tn, rn := recvTypeName(fd)
				if tn == "" || rn == "" || rn == "_" {
					if tn != "" {
						for _, fl := range structFields(p, tn) {
							rows = append(rows, fmt.Sprintf("%s.%s.%s:-:%s", short, tn, fl, yieldClass(sites, tn, fl)))
						}
					}
					continue
				}
				fields := structFields(p, tn)
				top, nested := map[string]bool{}, map[string]bool{}
				assignedFields(fd.Body.List, rn, top, nested, func() []string { return fields })
				for _, fl := range fields {
					r := "-"
					if top[fl] {
						r = "R"
					} else if nested[fl] {
						r = "r"
					}
					rows = append(rows, fmt.Sprintf("%s.%s.%s:%s:%s", short, tn, fl, r, yieldClass(sites, tn, fl)))
				}
			}
		}
	}
	sort.Strings(rows)
	// the slab discipline, as source text
	var disc []string
	if p := pk["github.com/polydawn/refmt/obj"]; p != nil {
		for _, x := range [][2]string{{"marshalSlab", "grow"}, {"marshalSlab", "release"}, {"unmarshalSlab", "grow"}, {"unmarshalSlab", "release"}} {
			if fd := findFunc(p, x[0], x[1]); fd != nil && fd.Body != nil {
				disc = append(disc, x[0]+"."+x[1]+": "+srcOf(p.Fset, fd.Body))
			} else {
				disc = append(disc, x[0]+"."+x[1]+": ?")
			}
		}
		for _, x := range [][2]string{{"Marshaller", "Bind"}, {"Unmarshaller", "Bind"}} {
			fd := findFunc(p, x[0], x[1])
			if fd == nil || fd.Body == nil {
				disc = append(disc, x[0]+"."+x[1]+": ?")
				continue
			}
			// the statements before the first requisition: what Bind forgets
			var pre []string
			for _, s := range fd.Body.List {
				txt := srcOf(p.Fset, s)
				if strings.Contains(txt, "requisitionMachine") {
					break
				}
				if as, ok := s.(*ast.AssignStmt); ok && len(as.Lhs) == 1 {
					if _, isSel := as.Lhs[0].(*ast.SelectorExpr); isSel {
						pre = append(pre, txt)
					}
				}
			}
			disc = append(disc, x[0]+"."+x[1]+": "+strings.Join(pre, "; "))
		}
	}
	var sb strings.Builder
	sb.WriteString("/- GENERATED by tools/extract from /repo's working tree; do not edit. -/\nnamespace Refmt.Gen\n\n")
	sb.WriteString("/-- `(pkg.Type.field, R|r|-, Y|y|-)` for every field of every struct with a Reset method: assigned by Reset at top level (R),\n    only under a nested statement (r), not at all (-); assigned at every `_yield` site handing the machine out (Y), some (y), none (-) -/\ndef machineFields : List (String × String × String) := [\n")
	for i, r := range rows {
		sep := ","
		if i == len(rows)-1 {
			sep = ""
		}
		parts := strings.Split(r, ":")
		sb.WriteString(fmt.Sprintf("  (%q, %q, %q)%s\n", parts[0], parts[1], parts[2], sep))
	}
	sb.WriteString("]\n\n/-- the slab discipline: bodies of grow / release, and what Bind forgets before it requisitions the first machine -/\ndef slabDiscipline : List String := [\n")
	for i, r := range disc {
		sep := ","
		if i == len(disc)-1 {
			sep = ""
		}
		sb.WriteString(fmt.Sprintf("  %q%s\n", r, sep))
	}
	sb.WriteString("]\n\nend Refmt.Gen\n")
	if err := os.WriteFile(path, []byte(sb.String()), 0o644); err != nil {
		panic(err)
	}
}

func yieldClass(sites []yieldSite, typ, field string) string {
	n, k := 0, 0
	for _, s := range sites {
		if s.typ == typ {
			n++
			if s.fields[field] {
				k++
			}
		}
	}
	switch {
	case n > 0 && k == n:
		return "Y"
	case k > 0:
		return "y"
	}
	return "-"
}
