#!/usr/bin/env python3
"""Generate harness/shapes_gen.go: families of struct types exercising Go's embedding / tag rules (C19).

Deterministic from the seed given on the command line (default 1).  Every family has a root
struct `S<k>` and sub-structs reached by embedding (by value / by pointer, exported / unexported
type names, shared between parents to create diamonds), plain fields with colliding names and
tags, `-` and `,omitempty` options, embedded non-struct types, and a few non-ASCII names.
"""
import random, sys

seed = int(sys.argv[1]) if len(sys.argv) > 1 else 1
nfam = int(sys.argv[2]) if len(sys.argv) > 2 else 400
rnd = random.Random(seed)

FIELD_NAMES = ["A", "B", "C", "X", "Y", "a", "b", "Élan", "Ωm", "Zed", "İd", "Ⱥbc", "\u212Aelvin", "Ⱥ", "\u1E9Eharp", "\u212Bng", "\u2126hm"]
TAGS = [None, None, None, "a", "b", "x", "A", "-", ",omitempty", "a,omitempty", "b,omitempty", "é", "bad tag!", "c,opt,omitempty", "$ref", "a+b", "x<y", "k=v", "^up", "a|b", "~t", "$id,omitempty", "x>y", "zz", "ab", "abc", "日本", "ñ"]
out = []
roots = []

def field_type():
    return rnd.choice(["int", "string", "int", "*int", "[]int"])

for k in range(nfam):
    types = []      # (name, fields-source)
    counter = [0]
    def new_struct(level, exported=None):
        counter[0] += 1
        exp = rnd.random() < 0.7 if exported is None else exported
        name = ("T%d_%d" if exp else "t%d_%d") % (k, counter[0])
        fields = []
        used = set()
        nplain = rnd.randint(0, 3)
        for _ in range(nplain):
            fn = rnd.choice(FIELD_NAMES)
            if fn in used:
                continue
            used.add(fn)
            tag = rnd.choice(TAGS)
            fields.append((fn, field_type(), tag, False))
        if level < 3:
            for _ in range(rnd.randint(0, 2) if level > 0 else rnd.randint(1, 3)):
                r = rnd.random()
                if r < 0.2 and types:
                    sub = rnd.choice(types)[0]       # share a type: diamonds and multiplicity
                elif r < 0.3:
                    sub = rnd.choice(["MyInt", "myInt", "MyStr"])   # embedded non-struct
                else:
                    sub = new_struct(level + 1)
                if sub in used or sub == name:
                    continue
                used.add(sub)
                ptr = rnd.random() < 0.4 and sub not in ("MyInt", "myInt", "MyStr")
                tag = rnd.choice([None, None, None, None, "e", "a", "-", ",omitempty"])
                fields.append((sub, ("*" if ptr else "") + sub, tag, True))
        rnd.shuffle(fields)
        types.append((name, fields))
        return name
    root = new_struct(0, exported=True)
    # rename root
    rootname = "S%d" % k
    fixed = []
    for (name, fields) in types:
        nm = rootname if name == root else name
        fixed.append((nm, fields))
    roots.append((rootname, [n for n, _ in fixed]))
    for (name, fields) in fixed:
        out.append("type %s struct {" % name)
        for (fn, ft, tag, emb) in fields:
            tg = "" if tag is None else " `refmt:%s`" % ('"' + tag + '"')
            if emb:
                out.append("\t%s%s" % (ft, tg))
            else:
                out.append("\t%s %s%s" % (fn, ft, tg))
        out.append("}")

# hand-written families: the diamond below a doubly-embedded type (Go makes X ambiguous), and deeper variants
out += [
    "type DiaD struct {", "\tX int", "}", "type DiaC struct {", "\tDiaD", "}", "type DiaA struct {", "\tDiaC", "}",
    "type DiaB struct {", "\tDiaC", "}", "type DiaS struct {", "\tDiaA", "\tDiaB", "}",
    "type Dia2E struct {", "\tY int", "\tZ string `refmt:\"zz\"`", "}", "type Dia2D struct {", "\t*Dia2E", "}", "type Dia2C struct {", "\tDia2D", "\tW int", "}",
    "type Dia2A struct {", "\t*Dia2C", "}", "type Dia2B struct {", "\tDia2C", "}", "type Dia2S struct {", "\tDia2A", "\tDia2B", "\tY int", "}",
]
# nil embedded pointers nested in each other, exported and unexported, two and three levels: a field behind an unexported
# nil pointer cannot be reached (error), behind exported ones it is allocated on the way
out += [
    "type nLeaf struct {", "\tX int", "}", "type NLeafX struct {", "\tW int", "}",
    "type NMid struct {", "\t*nLeaf", "\tM int", "}", "type NMid2 struct {", "\t*NLeafX", "\t*nLeaf", "}",
    "type NTop struct {", "\t*NMid", "}", "type NTop2 struct {", "\t*NMid2", "\tT string", "}",
    "type nMidU struct {", "\t*NLeafX", "}", "type NTop3 struct {", "\t*nMidU", "\t*NMid", "}",
]
roots.append(("NTop", ["NTop", "NMid", "nLeaf"]))
roots.append(("NTop2", ["NTop2", "NMid2", "NLeafX", "nLeaf"]))
roots.append(("NTop3", ["NTop3", "nMidU", "NMid", "NLeafX", "nLeaf"]))
roots.append(("DiaS", ["DiaS", "DiaA", "DiaB", "DiaC", "DiaD"]))
roots.append(("Dia2S", ["Dia2S", "Dia2A", "Dia2B", "Dia2C", "Dia2D", "Dia2E"]))

# wide families: more than a dozen candidate fields (own + promoted, counted before hiding) with names present at two and
# three embedding depths, the embedded struct first / in the middle / last / by pointer: the shallowest field of a name
# must win whatever order a sort leaves the candidates in
names = ["Alpha", "Beta", "Gamma", "Delta", "Eps", "Zeta", "Eta", "Theta", "Iota", "Kappa", "Lambda", "Mu", "Nu", "Xi", "Omi", "Pi", "Rho", "Sigma"]
for w, (nown, ninner, nshadow, pos, ptr, deeper) in enumerate([
        (8, 9, 8, "last", False, False), (5, 9, 4, "first", False, False), (12, 3, 1, "mid", False, False), (4, 10, 2, "last", True, False),
        (7, 7, 7, "first", True, False), (6, 8, 3, "mid", False, True), (13, 13, 13, "last", False, True), (1, 12, 1, "first", False, False),
        (9, 5, 5, "mid", True, True), (3, 16, 3, "last", False, False), (10, 10, 0, "first", False, False), (16, 2, 2, "mid", False, False)]):
    inner, outer, deep = "WI%d" % w, "WS%d" % w, "WD%d" % w
    own = names[:nown]
    inn = names[:nshadow] + names[nown:nown + (ninner - nshadow)]
    fam = [outer, inner]
    if deeper:
        fam.append(deep)
        out.append("type %s struct {" % deep)
        for n in names[:max(2, nshadow // 2)] + ["Deep"]:
            out.append("\t%s string" % n)
        out.append("}")
    out.append("type %s struct {" % inner)
    if deeper:
        out.append("\t%s" % deep)
    for i, n in enumerate(inn):
        out.append("\t%s string%s" % (n, " `refmt:\",omitempty\"`" if i % 5 == 4 else ""))
    out.append("}")
    emb = "\t%s%s" % ("*" if ptr else "", inner)
    lines = ["\t%s int" % n for n in own]
    k = {"first": 0, "mid": len(lines) // 2, "last": len(lines)}[pos]
    lines.insert(k, emb)
    out.append("type %s struct {" % outer)
    out += lines
    out.append("}")
    roots.append((outer, fam))

src = ["// Code generated by tools/genshapes.py seed=%d families=%d; DO NOT EDIT." % (seed, nfam), "", "package main", "",
       'import "reflect"', "", "type myInt int", ""]
src += out
src.append("")
src.append("var shapeFamilies = []struct {")
src.append("\troot reflect.Type")
src.append("\tall  []reflect.Type")
src.append("}{")
for (r, alln) in roots:
    src.append("\t{reflect.TypeOf(%s{}), []reflect.Type{%s}}," % (r, ", ".join("reflect.TypeOf(%s{})" % n for n in alln)))
src.append("}")
open(__import__("os").path.join(__import__("os").path.dirname(__import__("os").path.dirname(__import__("os").path.abspath(__file__))), "harness", "shapes_gen.go"), "w").write("\n".join(src) + "\n")
print("wrote", len(roots), "families,", sum(len(a) for _, a in roots), "types")
