#!/usr/bin/env python3
"""Regenerate MANIFEST.json from checklib/props.py (keeps it valid at all times)."""
import json, os, sys
ROOT = os.path.dirname(os.path.dirname(os.path.abspath(__file__)))
sys.path.insert(0, os.path.join(ROOT, "checklib"))
import props

ALL = ["C%02d" % i for i in range(1, 21)]
checks, na = [], []
for pid in ALL:
    cfg = props.PROPS.get(pid)
    if not cfg or cfg.get("disabled"):
        na.append(dict(property_id=pid, reason=(cfg or {}).get("na_reason", "check not built yet (work in progress; see DESIGN.md §6)")))
        continue
    checks.append(dict(
        property_id=pid,
        quick_cmd="./check %s --tier quick" % pid,
        thorough_cmd="./check %s --tier thorough" % pid,
        evidence_file="evidence/%s.json" % pid,
        replay_cmd_template="./check %s --replay {path}" % pid,
        engine="lean4-model+go-harness",
        level_claimed=dict(category=cfg["level"], text=cfg.get("claim", ""), design_ref="DESIGN.md §6 " + pid),
        level_note=cfg.get("level_note", "Trusted: Lean 4.33.0 kernel (axioms audited: propext, Classical.choice, Quot.sound only); the hand-written "
                           "Lean model, tied to /repo by the correspondence harness on every run; Go stdlib/reflect as modelled; protocol glue."),
        technique=cfg.get("technique", "Lean 4 theorem about a hand-written model + differential correspondence check against the Go code"),
    ))
man = dict(
    version=1,
    setup_cmd="./setup.sh",
    hooks=dict(guard="verif", enable="go build -tags verif (no hook commits exist: the harness uses exported API only)",
               baseline_off_cmd="cd /repo && GOFLAGS=-mod=mod GOPROXY=off GOSUMDB=off go test -mod=mod -vet=off -count=1 ./...",
               source_commits=[], add_only=True),
    engines=[dict(name="lean4-model+go-harness", path="lean/ harness/ check checklib/",
                  serves_properties=[c["property_id"] for c in checks],
                  kind_free_text="Lean 4 model + theorems (lake), compiled Lean driver, Go correspondence harness, Python orchestrator")],
    checks=checks,
    notes="See DESIGN.md. known_findings.json lists genuine defects (open = reported as KNOWN-FINDING; fixed = repaired by a fix: commit in /repo).",
    not_applicable=na,
)
json.dump(man, open(os.path.join(ROOT, "MANIFEST.json"), "w"), indent=1)
print("checks:", [c["property_id"] for c in checks], "not_applicable:", [n["property_id"] for n in na])
