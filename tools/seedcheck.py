#!/usr/bin/env python3
"""
seedcheck.py <seed-out-dir> <seed-id> <property> [more properties to run ...]

1. Confirms a seeded change in a scratch worktree of /repo: the patch applies, the unedited test
   suite still passes with it, the demonstration fails with it and passes without it.
2. Applies the patch to /repo, runs ./check <property> --tier quick for each listed property,
   undoes the patch (git -C /repo checkout -- .), and records which checks raised a VIOLATION.
3. Stores patch.diff, the demonstration and meta.json under /verif/seeded/<seed-id>/.
"""
import sys, os, re, json, subprocess, shutil, time

ENV = dict(os.environ, GOFLAGS="-mod=mod", GOPROXY="off", GOSUMDB="off", GOTOOLCHAIN="local")

def sh(cmd, cwd=None, timeout=1800):
    p = subprocess.run(cmd, cwd=cwd, env=ENV, shell=isinstance(cmd, str), stdout=subprocess.PIPE, stderr=subprocess.STDOUT, text=True, timeout=timeout)
    out = "\n".join(l for l in p.stdout.splitlines() if "conda.cli" not in l)
    return p.returncode, out

def save_outputs():
    """evidence/ and replays/ describe the UNCHANGED tree; runs against a seeded change must not leave theirs behind"""
    import tempfile
    d = tempfile.mkdtemp(prefix="verif_saved_")
    for sub in ("evidence", "replays"):
        if os.path.isdir(os.path.join("/verif", sub)):
            shutil.copytree(os.path.join("/verif", sub), os.path.join(d, sub))
    return d

def restore_outputs(d):
    for sub in ("evidence", "replays"):
        if os.path.isdir(os.path.join(d, sub)):
            shutil.rmtree(os.path.join("/verif", sub), ignore_errors=True)
            shutil.copytree(os.path.join(d, sub), os.path.join("/verif", sub))
    shutil.rmtree(d, ignore_errors=True)

def main():
    src, sid, prop = sys.argv[1], sys.argv[2], sys.argv[3]
    props = sys.argv[3:]
    patch = os.path.join(src, "patch.diff")
    demo = os.path.join(src, "demo_test.go")
    lines = open(demo).read().splitlines()
    place = re.search(r"place at:\s*(\S+)", lines[0]).group(1)
    m = re.search(r"(go test .*)$", lines[1])
    cmd = m.group(1).strip() if m else "go test -mod=mod -vet=off -count=1 ./%s" % os.path.dirname(place)
    cmd = re.sub(r"^cd \S+ && ", "", cmd)
    cmd = re.split(r"\s{2,}\(", cmd)[0].strip()
    res = dict(seed=sid, property=prop, place=place, demo_cmd=cmd)
    wt = "/tmp/seedverify_%s" % sid
    sh(["git", "-C", "/repo", "worktree", "remove", "--force", wt])
    shutil.rmtree(wt, ignore_errors=True)
    rc, out = sh(["git", "-C", "/repo", "worktree", "add", "--detach", wt, "HEAD"])
    try:
        rc, out = sh(["git", "apply", patch], cwd=wt)
        res["patch_applies"] = (rc == 0)
        if rc != 0:
            res["error"] = out[-500:]
            return finish(res, src, sid)
        rc, out = sh("go build ./... && go test -mod=mod -vet=off -count=1 ./...", cwd=wt)
        res["suite_passes_with_change"] = (rc == 0)
        shutil.copyfile(demo, os.path.join(wt, place))
        rc1, out1 = sh(cmd, cwd=wt)
        res["demo_fails_with_change"] = (rc1 != 0)
        sh(["git", "apply", "-R", patch], cwd=wt)
        rc2, out2 = sh(cmd, cwd=wt)
        res["demo_passes_without_change"] = (rc2 == 0)
        res["demo_output_with_change"] = out1[-600:]
    finally:
        sh(["git", "-C", "/repo", "worktree", "remove", "--force", wt])
        shutil.rmtree(wt, ignore_errors=True)
    res["confirmed"] = all(res.get(k) for k in ("patch_applies", "suite_passes_with_change", "demo_fails_with_change", "demo_passes_without_change"))
    if not res["confirmed"]:
        return finish(res, src, sid)
    # run the checks against /repo with the change applied
    rc, out = sh(["git", "-C", "/repo", "status", "--porcelain"])
    if out.strip():
        res["error"] = "/repo not clean: " + out[:200]
        return finish(res, src, sid)
    rc, out = sh(["git", "-C", "/repo", "apply", patch])
    detections = {}
    saved = save_outputs()
    try:
        for p in props:
            t0 = time.time()
            rc, out = sh(["./check", p, "--tier", "quick"], cwd="/verif", timeout=3000)
            viol = [l for l in out.splitlines() if l.startswith("VIOLATION")]
            first = [l for l in out.splitlines() if l.strip().startswith("first:") or "theorems not checked" in l or "correspondence breaks" in l]
            detections[p] = dict(exit=rc, violation=(viol[0] if viol else None), detail=(first[0].strip()[:500] if first else None),
                                 wall_s=round(time.time() - t0, 1))
    finally:
        sh(["git", "-C", "/repo", "checkout", "--", "."])
        sh(["git", "-C", "/repo", "clean", "-fd"])
        restore_outputs(saved)
    res["detections"] = detections
    res["detected_by"] = [p for p, d in detections.items() if d["violation"]]
    finish(res, src, sid)

def finish(res, src, sid):
    dst = os.path.join("/verif/seeded", sid)
    os.makedirs(dst, exist_ok=True)
    for f in ("patch.diff", "demo_test.go", "README.txt"):
        if os.path.exists(os.path.join(src, f)):
            shutil.copyfile(os.path.join(src, f), os.path.join(dst, f))
    readme = open(os.path.join(src, "README.txt")).read() if os.path.exists(os.path.join(src, "README.txt")) else ""
    meta = dict(breaks_property=res["property"], needs_to_manifest=readme.strip(), what_was_run=dict(
        scratch_worktree_confirmation={k: res.get(k) for k in ("patch_applies", "suite_passes_with_change", "demo_fails_with_change",
                                                                "demo_passes_without_change", "demo_cmd", "place")},
        checks=res.get("detections", {})), confirmed=res.get("confirmed", False), detected_by=res.get("detected_by", []),
        error=res.get("error"))
    mp = os.path.join(dst, "meta.json")
    if os.path.exists(mp):
        try:
            old = json.load(open(mp))
            prev = old.get("history") or ("first evaluation: " + (("detected by " + ", ".join(old["detected_by"])) if old.get("detected_by")
                                          else ("not confirmed (harness error)" if not old.get("confirmed") else "missed by " + ", ".join(old.get("what_was_run", {}).get("checks", {}).keys()))))
            if old.get("detected_by") != meta["detected_by"] or old.get("history"):
                meta["history"] = prev + "; checks strengthened since (see DESIGN.md 0.7)"
        except Exception:
            pass
    json.dump(meta, open(mp, "w"), indent=1)
    print(json.dumps(dict(seed=sid, confirmed=meta["confirmed"], detected_by=meta["detected_by"], error=meta["error"],
                          detail={p: d.get("detail") for p, d in res.get("detections", {}).items()}))[:1500])

if __name__ == "__main__":
    main()
