#!/usr/bin/env python3
"""
revertcheck.py [commit ...]

For every `fixed:` entry of known_findings.json (or the commits given): build the reverse patch of the fix commit,
confirm in a scratch worktree that it applies and that the unedited test suite passes with it (it is the code as it
was before the repair), apply it to /repo, run the quick check of the finding's property, undo, and record under
/verif/seeded/revert-<commit>/ (patch.diff, meta.json) whether the defect is reported again.
A fixed entry suppresses nothing, so each of these must come back as a VIOLATION.
"""
import sys, os, re, json, subprocess, shutil, time

ENV = dict(os.environ, GOFLAGS="-mod=mod", GOPROXY="off", GOSUMDB="off", GOTOOLCHAIN="local")

def sh(cmd, cwd=None, timeout=3000):
    p = subprocess.run(cmd, cwd=cwd, env=ENV, shell=isinstance(cmd, str), stdout=subprocess.PIPE, stderr=subprocess.STDOUT, text=True, timeout=timeout)
    return p.returncode, "\n".join(l for l in p.stdout.splitlines() if "conda.cli" not in l)

def save_outputs():
    """evidence/ and replays/ describe the UNCHANGED tree; runs against a seeded change must not leave theirs behind"""
    import tempfile
    d = tempfile.mkdtemp(prefix="verif_saved_")
    for sub in ("evidence", "replays"):
        if os.path.isdir(os.path.join("/verif", sub)):
            shutil.copytree(os.path.join("/verif", sub), os.path.join(d, sub))
    return d

def restore_outputs(d):
    for sub in ("evidence", "replays"):
        if os.path.isdir(os.path.join(d, sub)):
            shutil.rmtree(os.path.join("/verif", sub), ignore_errors=True)
            shutil.copytree(os.path.join(d, sub), os.path.join("/verif", sub))
    shutil.rmtree(d, ignore_errors=True)

def main():
    d = json.load(open("/verif/known_findings.json"))
    want = set(sys.argv[1:])
    for f in d["findings"]:
        m = re.match(r"fixed: property=(\S+) (\S+) (.*)", f.get("fixed", ""))
        if not m:
            continue
        prop, commit, what = m.groups()
        commit = commit.split("/")[0]
        if want and commit not in want:
            continue
        sid = "revert-" + commit
        dst = os.path.join("/verif/seeded", sid)
        os.makedirs(dst, exist_ok=True)
        rc, patch = sh(["git", "-C", "/repo", "diff", commit, commit + "^"])
        open(os.path.join(dst, "patch.diff"), "w").write(patch + "\n")
        meta = dict(breaks_property=prop, kind="revert of a repaired defect", commit=commit,
                    needs_to_manifest="Change: revert of fix %s (%s). Needs: %s" % (commit, what, f.get("witness", "")),
                    demonstration="the witness input recorded in known_findings.json: " + str(f.get("witness", "")))
        wt = "/tmp/revertverify_" + commit
        sh(["git", "-C", "/repo", "worktree", "remove", "--force", wt]); shutil.rmtree(wt, ignore_errors=True)
        sh(["git", "-C", "/repo", "worktree", "add", "--detach", wt, "HEAD"])
        try:
            rc, out = sh(["git", "apply", os.path.join(dst, "patch.diff")], cwd=wt)
            meta["patch_applies"] = (rc == 0)
            if rc == 0:
                rc, out = sh("go build ./... && go test -mod=mod -vet=off -count=1 ./...", cwd=wt)
                meta["suite_passes_with_change"] = (rc == 0)
        finally:
            sh(["git", "-C", "/repo", "worktree", "remove", "--force", wt]); shutil.rmtree(wt, ignore_errors=True)
        meta["confirmed"] = bool(meta.get("patch_applies") and meta.get("suite_passes_with_change"))
        if meta["confirmed"]:
            rc, out = sh(["git", "-C", "/repo", "status", "--porcelain"])
            if out.strip():
                print("repo not clean"); sys.exit(2)
            sh(["git", "-C", "/repo", "apply", os.path.join(dst, "patch.diff")])
            saved = save_outputs()
            try:
                t0 = time.time()
                rc, out = sh(["./check", prop, "--tier", "quick"], cwd="/verif")
                viol = [l for l in out.splitlines() if l.startswith("VIOLATION")]
                first = [l for l in out.splitlines() if l.strip().startswith("first:") or "theorems not checked" in l or "correspondence breaks" in l]
                meta["what_was_run"] = dict(checks={prop: dict(exit=rc, violation=(viol[0] if viol else None),
                                                              detail=(first[0].strip()[:500] if first else None), wall_s=round(time.time() - t0, 1))})
                meta["detected_by"] = [prop] if viol else []
            finally:
                sh(["git", "-C", "/repo", "checkout", "--", "."]); sh(["git", "-C", "/repo", "clean", "-fd"])
                restore_outputs(saved)
        else:
            meta["detected_by"] = []
            meta["error"] = "reverse patch does not apply cleanly on top of later fixes, or the suite fails"
        json.dump(meta, open(os.path.join(dst, "meta.json"), "w"), indent=1)
        print(json.dumps(dict(seed=sid, prop=prop, confirmed=meta["confirmed"], detected=meta["detected_by"])))

if __name__ == "__main__":
    main()
