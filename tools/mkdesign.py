#!/usr/bin/env python3
"""Regenerates section 0 of DESIGN.md from tools/asbuilt.md + props.py + known_findings.json + seeded/*/meta.json."""
import os, sys, json, re, glob
ROOT = os.path.dirname(os.path.dirname(os.path.abspath(__file__)))
sys.path.insert(0, os.path.join(ROOT, "checklib"))
import props

PARTIAL = {
    "C01": "none in the model: whole domain `fullTy` proved for CBOR (roundtrip_full_cbor) and for what JSON can carry (roundtrip_full_json); outside it (untagged structs in untyped slots; tagged types in untyped slots under JSON) the tie compares with the model",
    "C03": "none since C03Float (FloatTextOk proved); float text routines themselves are model code validated against strconv by the tie",
    "C06": "allocation proved for the model's make sites, measured on the real code; Go-runtime panics observed by the tie only",
    "C11": "independence (no shared storage) cannot be expressed over immutable model values: tie only (mutation probing); equality proved on `fullTy`",
    "C12": "fixpoint proved for the untyped chain; typed leg proved on fullTy incl. tagged entries (token level and CBOR; with tags under TagsOk/TagStab); JSON typed leg only for float-free typed targets",
    "C15": "none in the model since C15Prog (decoder models = programs over the reader operations); real decoders vs schedules: tie",
    "C17": "codec instances: proved for every history (C17Reuse); object MARSHALLER: a stateful model with the code's structure refines the functional model from every dirty state (C17ObjMarshal, NoClash atlases); object UNMARSHALLER: likewise for every target built from primitives, pointers, slices, arrays, maps, struct maps, untyped slots, transforms, keyed unions and atlas-resolved tags (C17ObjUnmarshalFull / Union; left out: a union member or tagged entry that is a transform over a primitive receive type - tie only); both stateful models are hand transcriptions of the Go machines, tied by the marshalm / unmarshalm cases of the correspondence check",
    "C18": "memory model / scheduler not modelled: non-interference theorem + regenerated SSA write-set + race detector",
    "C13": "completeness proved on `fullTy`; outside it (untagged structs inside untyped slots, transforms receiving untyped forms) tie only",
}

def status():
    rows = []
    for pid in sorted(props.PROPS):
        c = props.PROPS[pid]
        if c.get("disabled"):
            rows.append("| %s | not claimed | %s | %s | %s |" % (pid, "(in progress)", ", ".join(s["name"] for s in c["streams"]), c.get("na_reason", "")))
            continue
        ths = ", ".join("`%s`" % t.split(".", 2)[2] if t.startswith("Refmt." + pid) else "`%s`" % t.replace("Refmt.", "") for t in c["theorems"])
        rows.append("| %s | %s | %s | %s | %s |" % (pid, c["level"], ths, ", ".join(s["name"] for s in c["streams"]), PARTIAL.get(pid, "—")))
    return "\n".join(rows)

def findings():
    d = json.load(open(os.path.join(ROOT, "known_findings.json")))
    rows = ["| property | commit | what failed | witness |", "|---|---|---|---|"]
    for f in d["findings"]:
        m = re.match(r"fixed: property=(\S+) (\S+) (.*)", f.get("fixed", ""))
        if m:
            rows.append("| %s | %s | %s | `%s` |" % (m.group(1), m.group(2), m.group(3).replace("|", "\\|"), str(f.get("witness", f.get("regex", ""))).replace("|", "\\|")[:80]))
        else:
            rows.append("| %s | open | %s | |" % (f["property"], f.get("description", "")))
    return "\n".join(rows)

def seeds():
    rows = ["| seed | breaks | change (needs … to manifest) | confirmed | detected by (quick tier) |", "|---|---|---|---|---|"]
    for mp in sorted(glob.glob(os.path.join(ROOT, "seeded", "*", "meta.json"))):
        m = json.load(open(mp))
        sid = os.path.basename(os.path.dirname(mp))
        txt = m.get("needs_to_manifest", "")
        first = txt.split("\n")[0]
        first = re.sub(r"^Change:\s*", "", first)[:260].replace("|", "\\|")
        det = m.get("detected_by") or []
        hist = m.get("history", "")
        rows.append("| %s | %s | %s | %s | %s%s |" % (sid, m.get("breaks_property"), first, "yes" if m.get("confirmed") else "NO",
                                                 ", ".join(det) if det else "**missed**", (" — " + hist) if hist else ""))
    return "\n".join(rows)

def na():
    out = []
    for pid in sorted(props.PROPS):
        c = props.PROPS[pid]
        if c.get("disabled"):
            out.append("* %s — %s" % (pid, c.get("na_reason", "")))
    return "\n".join(out) if out else "None: all twenty properties are claimed (with the partial aspects listed in 0.2)."

def main():
    body = open(os.path.join(ROOT, "tools", "asbuilt.md")).read()
    body = body.replace("@@STATUS@@", status()).replace("@@FINDINGS@@", findings()).replace("@@SEEDS@@", seeds()).replace("@@NA@@", na())
    p = os.path.join(ROOT, "DESIGN.md")
    s = open(p).read()
    B, E = "<!-- ASBUILT-BEGIN -->", "<!-- ASBUILT-END -->"
    if B in s:
        s = s[:s.index(B)] + B + "\n" + body + "\n" + E + s[s.index(E) + len(E):]
    else:
        marker = "--------------------------------------------------------------------------------\n## 1. What refmt is, as read"
        s = s.replace(marker, B + "\n" + body + "\n" + E + "\n\n" + marker, 1)
    open(p, "w").write(s)

if __name__ == "__main__":
    main()
